"""Per-property configuration and the channel runners."""
import concurrent.futures as cf
import difflib
import glob
import hashlib
import json
import os
import random
import re
import sys

VERIF = os.path.dirname(os.path.dirname(os.path.abspath(__file__)))

TRUSTED = [
    "Lean 4.33 kernel; axioms propext, Classical.choice, Quot.sound only (audited per theorem on every run)",
    "hand-written Lean model of the encoders (lean/PS/Model), tied to /repo by the ENC correspondence "
    "(emitted assertion lists compared formula by formula on generated scripts) — differential, generator-bounded",
    "Fml.eval is taken to be z3's semantics of the printed formula; the EVAL channel samples it on every quantifier-free "
    "script: evalB (proved equal to eval: satB_sound) against z3's own evaluation of the real assertions under random "
    "interpretations incl. negative numbers",
    "z3: models satisfy the assertions; unsat is correct",
    "harness: AST walker, canonical renaming of uuid-named variables, Lean printer / s-expression reader",
    "pydantic, Python dict ordering, uuid4 uniqueness",
]

TASK_CLASSES = {"TaskStartAt", "TaskStartAfter", "TaskEndAt", "TaskEndBefore", "TaskPrecedence", "TasksStartSynced",
                "TasksEndSynced", "TasksDontOverlap", "TasksContiguous", "UnorderedTaskGroup", "OrderedTaskGroup",
                "ScheduleNTasksInTimeIntervals", "OptionalTaskForceSchedule", "OptionalTaskConditionSchedule",
                "OptionalTasksDependency", "ForceScheduleNOptionalTasks"}
RES_CLASSES = {"ResourceUnavailable", "WorkLoad", "ResourceNonDelay", "ResourceTasksDistance", "SameWorkers",
               "DistinctWorkers", "ResourceInterrupted", "ResourcePeriodicallyUnavailable",
               "ResourcePeriodicallyInterrupted"}
FOL_CLASSES = {"Not", "Or", "And", "Xor", "Implies", "IfThenElse", "ConstraintFromExpression",
               "ForceApplyNOptionalConstraints"}


def owner_in(owner, prefixes=(), classes=()):
    if any(owner.startswith(p) for p in prefixes):
        return True
    if owner.startswith("constr:"):
        return owner.split(":")[2] in classes if classes else False
    return False


PROPS = {
    "C01": {
        "theorems": ["C01_task_timing", "C01_unscheduled_parked", "C01_spec_sound"],
        "modules": ["SpecSound"],
        "profiles": [("core", 0.7), ("all", 0.3)],
        "relevant": lambda o: owner_in(o, ("task:", "problem")),
        "spec": "C01",
        "nontrivial": lambda s: any(d["op"] == "task" and (d.get("optional") or d.get("release") is not None
                                                            or d.get("due") is not None or d["kind"][0] != "fixed")
                                    for d in s),
        "rule": "scripts drawn from the 'core' profile (1-8 tasks of all three classes x optional x release/due/"
                "deadline x horizon/no horizon, workers, cumulative workers, selections, static/dynamic/delayed "
                "requirements); a script is non-trivial if it declares a task that is optional, has a release or due "
                "date, or is not a plain fixed-duration task; distinct = distinct script text",
        "assumptions": ["the task formulas emitted by the real code are those of the model (ENC, restricted to "
                        "owners task:* and problem)"],
        "n": {"quick": 450, "thorough": 4000},
    },
    "C10": {
        "theorems": ["C10_connective_raw", "C10_connective", "C10_optional", "C10_mandatory", "C10_forceApplyN",
                     "C10_no_leak", "C10_constraint_part", "C10_operands_marked", "C10_operand_not_enforced", "C10_spec_sound"],
        "modules": ["SpecSound"],
        "profiles": [("fol", 0.5), ("focus_fol", 0.3), ("all", 0.2)],
        "relevant": lambda o: owner_in(o, (), FOL_CLASSES) or o.startswith("constr:"),
        "spec": "C10",
        "exact": True,
        "nontrivial": lambda s: any(d["op"] == "constraint" and d["c"][0] in
                                    ("not", "or", "and", "xor", "implies", "ifThenElse", "forceApplyN") for d in s),
        "rule": "scripts from the 'fol' profile: the six connectives and ConstraintFromExpression over built-in "
                "task constraints (single- and multi-assertion ones), raw expressions and earlier connectives "
                "(nesting grows with script length), optional constraints and ForceApplyN exact/min/max; non-trivial "
                "= at least one connective or force-apply rule; distinct = distinct script text",
        "assumptions": ["assertions emitted for constraints by the real code are those of the model (ENC, all constr:* owners), "
                        "or logically equivalent to them on the script (z3, tier 2)"],
        "n": {"quick": 500, "thorough": 3000},
    },
    "C03": {
        "theorems": ["C03_raw_sound", "C03_task_constraints", "C03_optional_constraints", "C03_scheduleN_lower", "C03_scheduleN_enforced",
                     "ContiguousOK_pairwise", "gaps_pairwise", "C03_spec_sound",
                     "C05_sound_groups", "C05_complete_groups", "C05_feasible_iff_groups"],
        "modules": ["SpecSound", "Groups"],
        "profiles": [("taskc", 0.45), ("focus_taskc", 0.35), ("all", 0.2)],
        "relevant": lambda o: owner_in(o, (), TASK_CLASSES),
        "spec": "C03",
        "nontrivial": lambda s: sum(1 for d in s if d["op"] == "constraint") >= 2,
        "rule": "scripts of the 'taskc' profile: every task-constraint class x lax/strict/tight x offsets {0,1,2,5} x "
                "bounds from the boundary set {0,1,2,3,H/2,H-1,H,H+1} x interval lists (1..3, touching / overlapping) x "
                "exact/min/max counts, over fixed / zero / variable-duration, mandatory and optional tasks, optional "
                "constraints; non-trivial = at least two constraints; distinct = distinct script text",
        "assumptions": ["the task-constraint formulas emitted by the real code are those of the model (ENC, owners constr:*:<task "
                        "constraint class>) or equivalent on the script (z3)",
                        "TasksContiguous and the upper side of ScheduleNTasksInTimeIntervals: see known findings / partial theorems"],
        "n": {"quick": 600, "thorough": 4000},
    },
    "C04": {
        "theorems": ["C04_raw_sound", "C04_resource_constraints", "workloadOne_sound", "sortNoDup_sound", "C04_periodic_own_period",
                     "C04_periodic_enforced", "interruptedOne_sound", "periodicInterruptedOne_sound",
                     "periodic_overlap_closed_form", "repsInside_spec", "folded_not_inside", "GapsOK_pairwise", "gaps_pairwise",
                     "sortInts_getD_rank", "C04_spec_sound"],
        "modules": ["SpecSound"],
        "profiles": [("resc", 0.45), ("focus_resc", 0.4), ("all", 0.15)],
        "relevant": lambda o: owner_in(o, (), RES_CLASSES),
        "spec": "C04",
        "run_profiles": ["focus_resc", "focus_resc", "resc"],
        "n_run": {"quick": 120, "thorough": 2500},
        "run_check": __import__("harness.c04", fromlist=["x"]).run_c04,
        "nontrivial": lambda s: any(d["op"] == "constraint" and d["c"][0] in
                                    ("unavailable", "workload", "nonDelay", "distance", "sameWorkers", "distinctWorkers",
                                     "interrupted", "periodicallyUnavailable", "periodicallyInterrupted") for d in s),
        "rule": "scripts of the 'resc' profile: ResourceUnavailable / WorkLoad (exact, min, max; bounds 0..len+1) / "
                "ResourceNonDelay / ResourceTasksDistance (with and without intervals, three modes) / ResourceInterrupted / "
                "ResourcePeriodicallyUnavailable / ResourcePeriodicallyInterrupted (periods 5, 7, 10; 1-2 windows inside the "
                "period; start / offset / end masks) / Same- and DistinctWorkers on plain and cumulative workers, fixed-, zero- "
                "and variable-duration tasks, direct and selected assignments, declared before and after further assignments "
                "(the generator draws assigned resources, and resources with two busy intervals for the gap constraints; 6 % "
                "ill-formed); RUN (gap classes, which have no SEM twin): for every mandatory ResourceNonDelay / "
                "ResourceTasksDistance on a plain worker, z3 is asked for a schedule admitted by the real assertions in which two "
                "consecutive real busy intervals break the documented relation; a model is re-evaluated in plain Python (sort by "
                "start, walk the gaps) before it is reported; non-trivial = at least one resource constraint; distinct = "
                "distinct script text",
        "assumptions": ["resource-constraint formulas emitted by the real code are those of the model (ENC) or equivalent (z3)",
                        "periodic classes: the window of the period the busy interval starts in (F13, F39: the next period's "
                        "window can be overlapped); ResourceTasksDistance / NonDelay have a theorem but no SEM twin"],
        "n": {"quick": 550, "thorough": 4000},
    },
    "C08": {
        "theorems": ["C08_body_sound", "C08_indicator_value", "C08_target_bounds", "linear_trapezoid", "C08_spec_sound"],
        "modules": ["SpecSound"],
        "profiles": [("ind", 0.4), ("focus_ind", 0.35), ("obj", 0.25)],
        "relevant": lambda o: owner_in(o, ("indicator:",), {"IndicatorTarget", "IndicatorBounds"}),
        "spec": "C08",
        "nontrivial": lambda s: any(d["op"] == "indicator" for d in s),
        "rule": "scripts of the 'ind' profile: every indicator class over plain / cumulative / selected workers, optional "
                "tasks, horizons 6..30 and none (incl. horizons that do not divide 100), constant / linear / polynomial "
                "costs, buffers, user expressions, indicator targets and bounds (incl. 0); non-trivial = at least one "
                "indicator; distinct = distinct script text",
        "assumptions": ["indicator formulas emitted by the real code are those of the model (ENC, owners indicator:*) or equivalent (z3)",
                        "IndicatorResourceIdle and non-constant cost functions: ENC only (no spec twin); polynomial costs are the "
                        "trapezoid as implemented, not claimed equal to the integral",
                        "build_solution reports the value of the indicator variable (SOL channel, C11)"],
        "n": {"quick": 600, "thorough": 4000},
    },
    "C18": {
        "theorems": ["fieldTable_meets_spec", "C18_task_iff", "C18_worker_iff", "C18_select_iff", "C18_buffer_iff",
                     "C18_problem_iff", "C18_cumulative_rejected", "C18_optional_rule_rejected", "C18_force_apply_rejected",
                     "C18_unassigned_rejected", "C18_before_problem"],
        "profiles": [("all", 1.0)],
        "relevant": lambda o: False,       # only accept / reject decisions (and residues through later declarations)
        "decl_only": True,
        "spec": None,
        "fieldtable": True,
        "acc_grid": True,
        "nontrivial": lambda s: True,
        "rule": "ACC: an exhaustive boundary grid (693 cases; the periodic classes with every list of one or two intervals around the period): every constructor with values {-1,0,1,2,...} around each "
                "bound, duplicate names per kind, selections of 0..3 workers x n in -1..4, cumulative sizes -1..3, optional-"
                "task rules on mandatory / optional tasks, force-apply over mandatory / optional constraints, resource "
                "constraints on assigned / unassigned / cumulative resources, every self-contained constructor before a "
                "problem exists, each probe after a fixed 19-declaration context and repeated twice; the exception class of "
                "the real constructor must equal the model's; plus random scripts with a 3 % stream of ill-formed "
                "declarations; TABLE: pydantic field metadata regenerated into Lean on every run; distinct = distinct script",
        "assumptions": ["pydantic enforces the field metadata it is given (checked by ACC, not proved)",
                        "ResourceNonDelay / TasksContiguous / IndicatorResourceIdle on fewer than two busy intervals are rejected by "
                        "an accidental duplicate-assertion error (known finding F32)"],
        "n": {"quick": 150, "thorough": 3000},
    },
    "C11": {
        "theorems": ["C11_reports_model", "C11_duration", "C11_horizon", "C11_calendar", "C11_assigned_has_requirement",
                     "C11_unscheduled_no_assignment", "C11_task_iff_resource", "resourceSols_view", "busyOf_keys",
                     "C02_busy_span", "C11_task_iff_resource_reachable", "reachable_wnodup", "C11_hord_of_fits",
                     "C11_task_iff_resource_admitted"],
        "modules": ["C11R"],
        "profiles": [("core", 1.0)],
        # "the reported interval is the one the requirement implies" rests on the requirement formulas (C02_busy_span)
        "relevant": lambda o: owner_in(o, ("req:",)),
        "spec": "C02",
        "sol_profiles": ["core", "all", "ind", "buffer"],
        "n_sol": {"quick": 450, "thorough": 5000},
        "z3_fraction": 0.3,
        "nontrivial": lambda s: True,
        "rule": "ENC + SEM on the requirement formulas (owner req:*, spec twin C02: the busy interval every reported assignment "
                "is read from is the one the requirement implies); "
                "SOL: build_solution of the real library vs the model on the same interpretation, for scripts of the "
                "core / all / ind / buffer profiles x calendar settings {none, delta, delta+start_time}: 70 % synthetic "
                "interpretations (every variable drawn from {-3..3,5,8,H}: unscheduled tasks, negative busy starts, ties, "
                "duplicate buffer instants) fed through a model stub, 30 % real z3 models; every field of every task / "
                "resource / buffer / indicator entry is compared; non-trivial = solution with at least one line; "
                "distinct = distinct (script, seed)",
        "assumptions": ["FlagsAgree (no task requires one worker through two routes) and delay-in below the task number for "
                        "the 'unscheduled => no assignment' theorem (finding F19)",
                        "C11_task_iff_resource assumes pairwise different workers, nobody else reporting under a worker's own "
                        "name, and busy intervals that start at a non-negative instant ending at one (delays fit durations); a "
                        "CumulativeWorker listed inside a SelectWorkers breaks the equivalence in the real code (finding F40, "
                        "outside the model)"],
        "n": {"quick": 120, "thorough": 2000},
    },
    "C16": {
        "theorems": ["C16_df_faithful", "C16_df_injective", "C16_excel_item_decode", "C16_excel_zero_length",
                     "C16_excel_cells_complete"],
        "profiles": [("core", 1.0)],
        "relevant": lambda o: False,
        "spec": None,
        "out_profiles": ["all", "core", "obj", "buffer", "ind"],
        "out_what": ("df", "excel", "json", "smt"),
        "n_out": {"quick": 180, "thorough": 2500},
        "nontrivial": lambda s: True,
        "rule": "OUT: generated problems (all element kinds, optional and zero-duration tasks, buffers, indicators, "
                "calendar times, both optimisers) are solved with real z3; to_df / to_csv (string and ';'-separated file) / "
                "to_json / to_excel_file (colors on and off) / export_to_smt2 are run and read back (csv, json, zipfile + "
                "xml.etree, z3.parse_smt2_string) and compared cell by cell with the model's dfRows / excelCells and with "
                "the solution object / the solver's assertions; every task and every cost function of the problem is "
                "serialised with to_json, read back with model_validate_json into a fresh problem and compared (definition "
                "fields, emitted assertions, function values at integer points and at a symbolic point); calendars with time "
                "steps of minutes, hours, a day, a day and a half; distinct = distinct (script, seed)",
        "assumptions": ["pandas, xlsxwriter, pydantic's JSON dump and z3's SMT-LIB printer are not modelled: their output is "
                        "read back and compared",
                        "Excel: a zero-length item is written like a length-1 item and an item starting at -1 erases the name "
                        "cell of its row (known finding F21)"],
        "n": {"quick": 10, "thorough": 50},
    },
    "C17": {
        "theorems": ["mkBar_span", "C17_marker_centred", "C17_task_bars", "C17_task_bar_at", "C17_resource_bars",
                     "C17_resource_bar_count", "C17_buffer_steps"],
        "profiles": [("core", 1.0)],
        "relevant": lambda o: False,
        "spec": None,
        "out_profiles": ["all", "core", "buffer", "ind"],
        "out_what": ("gantt",),
        "n_out": {"quick": 220, "thorough": 2000},
        "nontrivial": lambda s: True,
        "rule": "OUT: generated problems solved with real z3, rendered with render_gantt_matplotlib on the Agg backend in "
                "both modes; bar rectangles (PolyCollection vertices), their labels and label positions, row tick labels "
                "and buffer step lines are read from the artists and compared with the model's ganttBars / ganttRowLabels / "
                "bufferSteps (exact coordinates in units of 1/20); distinct = distinct (script, seed)",
        "assumptions": ["matplotlib's rendering of the artists is not modelled",
                        "the plotly renderer is not covered (plotly is not usable offline in this sandbox: its 4 tests fail on "
                        "the unchanged tree)"],
        "n": {"quick": 10, "thorough": 50},
    },
    "C05": {
        "theorems": ["C05_complete_core", "C05_unsat_means_no_valid_schedule", "task_complete", "reqs_complete",
                     "core_raw_complete", "noOverlapPairs_complete", "interruptedOne_complete", "periodicOne_complete",
                     "periodicInterruptedOne_complete", "indicator_complete", "eval_congr_term", "eval_congr_fml",
                     "C05_sound_core", "C05_feasible_iff", "envOf_schedOf_task", "envOf_schedOf_busy", "core_raw_sound",
                     "agree_own", "agree_own2", "envOf_indicator", "eval_congr2_term", "eval_congr2_fml", "reachable_wf",
                     "InCoreS.of_reachable", "Exact_ex_inCoreS", "busy_le", "Exact_ex2_inCoreS", "multi_extend", "C05_feasible_iff_multi", "Multi_ex_inCoreS", "fragmentMultiB_sound",
                     "C05_feasible_iff_clean", "C05_sound_groups", "C05_complete_groups", "C05_feasible_iff_groups",
                     "fragmentGroupsB_sound", "Groups_ex_model", "C05_feasible_iff_groups_multi", "fragmentGroupsMultiB_sound",
                     "C05_unsat_means_no_valid_schedule_groups", "C05_sat_means_valid_schedule_groups"],
        "modules": ["Exact", "Multi", "CleanSpec", "Groups", "GroupsV"],
        "profiles": [("all", 0.3), ("frag", 0.2), ("resc", 0.1), ("fol", 0.15), ("focus_resc", 0.15), ("focus_taskc", 0.1)],
        "relevant": lambda o: True,
        "spec": None,
        "exact": True,
        "run_profiles": ["frag"], "run_needs_driver": True,
        "n_run": {"quick": 60, "thorough": 1500},
        "run_check": __import__("harness.solverprops", fromlist=["x"]).run_c05,
        "nontrivial": lambda s: True,
        "rule": "ENC with exactness: on scripts of every profile the real assertion list must be the model's, or "
                "logically equivalent to it (z3, both directions) — a witness interpretation that the model admits and "
                "the real code rejects is reported as the failing input; RUN (completeness search): on 'frag' scripts "
                "(the elements whose documented meaning has a complete spec twin, inside the core fragment) z3 "
                "enumerates schedules satisfying the Lean-stated meaning (8..25 per script) and each is pinned (task "
                "times, durations, scheduled flags, selections, applied flags, dynamic busy intervals, horizon) in the "
                "real constraint system, which must stay satisfiable; distinct = distinct script text",
        "assumptions": ["theorem C05_complete_core covers the core fragment (InCore); outside it completeness rests on the exact "
                        "ENC correspondence with the model and on the known findings list",
                        "z3 is complete on the emitted fragment (hypothesis ConsistentAns)"],
        "n": {"quick": 550, "thorough": 3000},
    },
    "C06": {
        "theorems": ["C06_scheduled_as_mandatory", "C06_parked", "C06_busy_parked", "C06_blocks_nobody",
                     "C06_constraint_inert", "C06_no_indicator_contribution", "C11_unscheduled_no_assignment",
                     "C03_raw_sound", "C06_absent_restrict", "C06_absent_extend", "C06_inert_guarded",
                     "C06_absent_models_restrict", "C06_absent_models_extend", "busyOf_dropTask", "envOf_dropTask_agree",
                     "Absent_ex_inCoreS", "C06_deletion_sound"],
        "modules": ["Absent", "Renumber"],
        "profiles": [("all", 0.35), ("taskc", 0.2), ("obj", 0.15), ("focus_resc", 0.15), ("resc", 0.1), ("focus_taskc", 0.05)],
        "relevant": lambda o: True,
        "spec": None,
        "exact": True,
        "run_profiles": ["frag"],
        "n_run": {"quick": 80, "thorough": 1500},
        "run_check": __import__("harness.solverprops", fromlist=["x"]).run_c06, "run_needs_driver": True,
        "nontrivial": lambda s: any(d["op"] == "task" and d.get("optional") for d in s),
        "rule": "ENC with exactness over scripts with optional tasks (35 % of all tasks) in every profile; RUN (deletion "
                "search): on 'frag' scripts an optional task t is chosen, the script without t (its requirements and "
                "every constraint naming it, ids re-mapped) is built, and up to 6 schedules of each side are pinned into "
                "the other (S with t unscheduled vs S minus t, both directions) with real z3; non-trivial = the script "
                "has an optional task; distinct = distinct script text",
        "assumptions": ["the equality of the two schedule sets is decided by ENC + RUN inside the fragment, the local inertness "
                        "facts by theorems; buffers (F16), release dates (F7), work amounts (F26), groups / ScheduleN (F18), "
                        "interruptions (F24), delayed requirements (F19) of optional tasks are recorded findings"],
        "n": {"quick": 500, "thorough": 3000},
    },
    "C07": {
        "theorems": ["incLoop_spec", "C07_anytime", "C07_optimal", "incLoop_bound", "C07_bound_stop", "C07_weighted",
                     "C07_weighted_goal", "C07_core_attainable", "C07_core_lower_bound", "C07_weighted_attainable",
                     "C07_optimal_valid", "C07_groups_attainable", "C07_optimal_valid_groups"],
        "modules": ["Exact", "Multi", "C07V", "Groups", "GroupsV"],
        "profiles": [("obj", 1.0)],
        "relevant": lambda o: owner_in(o, ("objective", "indicator:")),
        "spec": None,
        "exact": True,
        "sm_focus": "solve",
        "run_profiles": ["obj", "obj", "focus_multiobj"], "run_needs_driver": True,
        "n_sm": {"quick": 300, "thorough": 4000}, "n_run": {"quick": 60, "thorough": 600},
        "run_check": __import__("harness.solverprops", fromlist=["x"]).run_c07,
        "nontrivial": lambda s: any(d["op"] == "objective" for d in s),
        "rule": "ENC: scripts of the 'obj' profile (all built-in objectives, user indicators, weights, several objectives) "
                "compared on the objective plumbing; SM: random configurations (optimizer x priority x max_iter 1..5 x "
                "max_time) x call sequences x scripted oracle answers (sat values incl. the declared bounds, unsat, "
                "unknown, durations) — the real solver object's calls on z3 must equal the model's; RUN: small bounded "
                "problems solved by both optimisers with real z3, then a fresh z3 query asks for a strictly better valid "
                "schedule; non-trivial = has an objective / more than one call; distinct = distinct case text",
        "assumptions": ["z3 answers are consistent with the assertion stack (hypothesis ConsistentAns of the theorems)",
                        "z3.Optimize returns an optimum of the objective handed to minimize/maximize (trusted; sampled by RUN)",
                        "objectives are bounded (a horizon is declared); declared indicator bounds are true bounds"],
        "n": {"quick": 80, "thorough": 1500},
    },
    "C12": {
        "theorems": ["blockingClause_eval", "C12_distinct", "C12_exhaustive", "C12_variable", "C13_base",
                     "C12_exhaustive_valid", "C12_returned_valid", "C12_exhaustive_valid_groups", "C12_returned_valid_groups"],
        "modules": ["C12V", "GroupsV"],
        "profiles": [("core", 1.0)],
        "relevant": lambda o: False,
        "spec": None,
        "sm_profiles": ["taskc", "core", "obj"], "run_profiles": ["taskc", "core"],
        "n_sm": {"quick": 120, "thorough": 2500}, "n_run": {"quick": 50, "thorough": 500},
        "run_check": __import__("harness.solverprops", fromlist=["x"]).run_c12,
        "nontrivial": lambda s: True,
        "rule": "SM: call sequences with find_another_solution / find_another_solution_for_variable under a scripted "
                "oracle (models with random starts, ends and scheduled flags): the blocking clauses added by the real "
                "code must equal the model's; RUN: small bounded problems (horizon 6..12, 2..5 tasks, optional tasks, "
                "resources) enumerated to exhaustion with the real solver and compared with an independent z3 enumeration "
                "of the distinct timings; non-trivial = every case; distinct = distinct case text",
        "assumptions": ["z3 answers are consistent with the assertion stack (ConsistentAns)"],
        "n": {"quick": 10, "thorough": 50},
    },
    "C13": {
        "theorems": ["C13_base", "C13_fresh", "step_ok", "solve_ok"],
        "profiles": [("core", 1.0)],
        "relevant": lambda o: False,
        "spec": None,
        "sm_profiles": ["obj", "taskc", "core"], "run_profiles": ["obj", "obj", "obj", "taskc"],
        "n_sm": {"quick": 150, "thorough": 3000}, "n_run": {"quick": 100, "thorough": 800},
        "run_check": __import__("harness.solverprops", fromlist=["x"]).run_c13,
        "nontrivial": lambda s: True,
        "rule": "SM: random sequences (1..8) of initialize / export / solve / find_another* under both optimisers, debug, "
                "max_iter, max_time and a scripted oracle: the push/pop/add/check trace of the real solver object must "
                "equal the model's; RUN: the same kind of sequences with real z3, every returned schedule checked against "
                "a fresh build of the problem and every 'no solution' against an independent satisfiability query; "
                "distinct = distinct case text",
        "assumptions": ["Pareto mode excluded as the property says",
                        "explicit re-initialisation with several objectives raises (known finding F23) and is not generated"],
        "n": {"quick": 10, "thorough": 50},
    },
    "C15": {
        "theorems": ["C15_core_cfg_free", "C15_tracked_equiv", "C01_task_timing", "C15_core_verdict_cfg_free", "C15_groups_verdict_cfg_free"],
        "modules": ["Exact", "Groups"],
        "profiles": [("all", 0.6), ("obj", 0.4)],
        "relevant": lambda o: True,
        "spec": None,
        "cfg_grid": True,
        "sm_profiles": ["obj", "obj", "core", "buffer"], "run_profiles": ["obj", "taskc", "resc", "buffer"],
        "n_sm": {"quick": 200, "thorough": 3000}, "n_run": {"quick": 100, "thorough": 600},
        "run_check": __import__("harness.solverprops", fromlist=["x"]).run_c15,
        "nontrivial": lambda s: True,
        "rule": "ENC over the configuration grid (debug x optimizer x priority): the emitted assertions must be the model's "
                "for every configuration; RUN: pairs of configurations from optimizer x priority x parallel x random_values "
                "x debug x verbosity x logics (QF_LIA / QF_UFLIA only on problems inside the fragment) on small problems "
                "with real z3: definite verdicts and optima must agree, returned schedules must satisfy a fresh build",
        "assumptions": ["z3 behaves correctly under its parallel / random / logic options (trusted; sampled by RUN)"],
        "n": {"quick": 90, "thorough": 1500},
    },
    "C19": {
        "theorems": ["C19_listed_are_constraints", "C19_conflict", "C15_tracked_equiv"],
        "profiles": [("taskc", 1.0)],
        "relevant": lambda o: False,
        "spec": None,
        "sm_profiles": ["taskc", "buffer", "all"], "run_profiles": ["taskc", "resc", "fol", "buffer"],
        "sm_debug": True,
        "n_sm": {"quick": 80, "thorough": 1000}, "n_run": {"quick": 70, "thorough": 600},
        "run_check": __import__("harness.solverprops", fromlist=["x"]).run_c19,
        "nontrivial": lambda s: True,
        "rule": "RUN: generated problems made infeasible by two conflicting user constraints among irrelevant ones, solved "
                "in debug mode with real z3; the printed diagnosis is parsed: every listed item must be a constraint of "
                "the problem and the listed constraints plus the basic task/resource/buffer rules must be unsatisfiable "
                "(fresh z3); feasible variants check the verdict and the validity of the schedule; SM: debug-mode traces",
        "assumptions": ["z3's unsat core is an unsatisfiable subset of the tracked assertions (trusted; re-checked by RUN)",
                        "the 32-bit tracking identifiers are distinct"],
        "n": {"quick": 10, "thorough": 50},
    },
    "C09": {
        "theorems": ["C09_levels_nonconcurrent", "C09_levels_concurrent", "C09_exclusive", "C09_concurrent_tie_possible",
                     "C09_initial", "C09_final", "C09_bounds", "C09_reported", "C09_spec_sound", "levels_closed_form",
                     "sortNoDup_sound", "sortDup_sound", "satB_sound"],
        "profiles": [("buffer", 0.7), ("all", 0.15), ("obj", 0.15)],
        "relevant": lambda o: owner_in(o, ("buffer:",)),
        "spec": "C09",
        "sol_profiles": ["buffer"], "n_sol": {"quick": 60, "thorough": 1500}, "z3_fraction": 0.3,
        "run_profiles": ["buffer"], "run_needs_driver": True,
        "n_run": {"quick": 80, "thorough": 1500},
        "run_check": __import__("harness.c09", fromlist=["x"]).run_c09,
        "nontrivial": lambda s: sum(1 for d in s if d["op"] == "constraint" and d["c"][0] in ("loadBuffer", "unloadBuffer")) >= 2,
        "rule": "ENC on the buffer assertions (owner buffer:*) for scripts of the 'buffer' profile (concurrent and "
                "non-concurrent buffers, initial / final levels and bounds present or absent, 0..6 loading / unloading "
                "tasks with quantities 1..5, optional accessors, plus task constraints); SEM: the closed form proved in Lean "
                "(level after change time i = initial + sum of the quantities of all accesses at instants <= that time; "
                "sorted covering change times; exclusivity for non-concurrent buffers; start / end / bounds) is negated "
                "and conjoined with the real assertions (quantified pulses included); SOL: build_solution incl. "
                "clean_buffer_levels vs the model on synthetic interpretations with duplicate instants and on z3 models; "
                "RUN: up to 8 differently placed admitted schedules per script (z3 enumeration over the access instants) "
                "+ one forced tie per script + the library's own solve(), each turned into a solution by the real "
                "build_solution and compared with the theorem statement evaluated on the reported task times; "
                "non-trivial = at least two accesses; distinct = distinct script text",
        "assumptions": ["one change time per access (hlen): no task is declared twice as unloading, or twice as loading, the "
                        "same buffer (the real registries are dicts keyed by task, the change-time list is not)",
                        "an unscheduled optional task still accesses its buffer at its parking instant (finding F16): the RUN "
                        "oracle skips scripts with optional accessors, the theorems state what the encoding does (all declared "
                        "accesses count)",
                        "z3 decides the quantified pulse formulas of concurrent buffers (unknown answers are counted, not "
                        "treated as violations)"],
        "n": {"quick": 400, "thorough": 4000},
    },
    "C14": {
        "theorems": ["C14_fresh_problem", "C14_run_after_problem", "C14_valid_order_free", "C05_complete_core",
                     "C14_core_verdict", "C14_core_schedules", "Valid_iff_clean2", "ValidClean2_renumber", "Valid_renumber",
                     "C14_tasks_order_verdict", "CoreMeaning_renumTasks", "Renum_ex_same", "Renum_ex_verdict",
                     "CoreMeaning_sameUpTo", "numbersIntoB_sound", "tasksOrderTheoremB_sound", "C14_groups_verdict"],
        "modules": ["Exact", "Renumber", "Groups"],
        "profiles": [("all", 0.45), ("core", 0.2), ("obj", 0.15), ("buffer", 0.2)],
        "relevant": lambda o: True,
        "spec": None,
        "exact": True,
        "history_enc": True,
        "run_profiles": ["frag", "frag", "taskc", "obj", "buffer", "resc", "focus_multiobj", "focus_multiobj", "focus_multiobj"],
        "run_needs_driver": True,
        "n_run": {"quick": 180, "thorough": 2000},
        "run_check": __import__("harness.c14", fromlist=["x"]).run_c14,
        "nontrivial": lambda s: True,
        "rule": "ENC with exactness after history: every script is built by a long-lived worker process that has built "
                "dozens of other problems before (same element names), and its assertion list must be the one of the "
                "stateless model; RUN, three searches on the real code with real z3: (rename) a bijection onto fresh names "
                "(other lengths and orders, names that are prefixes of one another) — (permute) tasks / workers / buffers / "
                "unreferenced constraints permuted among the slots of their kind — both compared with the original by "
                "verdict, up to 5 cross-pinned schedules in each direction (times of scheduled tasks, durations, flags, "
                "selections, applied flags, horizon) and the z3 optimum of the declared objective; (history) 1..3 unrelated "
                "problems built and solved first with the same solver configuration (default, logics, optimize, debug, "
                "random_values, parallel), then the problem: accepted declarations, canonical assertion list, verdict, "
                "validity and objective value must equal those of a fresh interpreter (subprocess)",
        "assumptions": ["the unbounded statements proved are C14_fresh_problem / C14_run_after_problem (no state survives a "
                        "new problem in the model) and C14_valid_order_free (the documented meaning is order-free); "
                        "invariance of the real code under renaming and permutation is decided by the RUN search together "
                        "with soundness/completeness (C01-C05), not by a theorem over all renamings",
                        "objective values are compared only when both runs finished well before max_time",
                        "F20 (parking-instant collision under ResourceNonDelay / ResourceTasksDistance) is a recorded finding; "
                        "scripts in that region are not permuted"],
        "n": {"quick": 150, "thorough": 3000},
    },
    "C02": {
        "theorems": ["C02_no_overlap", "C02_load_le_one", "C02_cumulative_capacity", "C02_busy_span",
                     "C02_selection_count", "C02_work_amount", "C02_spec_sound", "no_overlap_iff_real", "Valid_iff_clean",
                     "workSum_real", "Valid_work_real"],
        "modules": ["SpecSound", "CleanSpec"],
        "profiles": [("core", 0.35), ("resc", 0.2), ("all", 0.15), ("resfol", 0.3)],
        "relevant": lambda o: owner_in(o, ("req:", "worker:", "work:")),
        "spec": "C02",
        "nontrivial": lambda s: sum(1 for d in s if d["op"] == "require") >= 2,
        "rule": "scripts drawn from the 'core' profile (workers with productivities 0..3, cumulative workers of size "
                "2..5, selections of 2..5 workers x exact/min/max x n, static / dynamic / delayed requirements, work "
                "amounts); non-trivial = at least two add_required_resource calls; distinct = distinct script text",
        "assumptions": ["the requirement, non-overlap and work-amount formulas emitted by the real code are those of "
                        "the model (ENC, owners req:*, worker:*, work:*)",
                        "delay_in + early_out <= duration is the user's responsibility (DelaysFit)"],
        "n": {"quick": 450, "thorough": 4000},
    },
}


# ---------------------------------------------------------------------------------------------
def script_key(script):
    return hashlib.sha1(json.dumps(script, sort_keys=True, default=str).encode()).hexdigest()


def subst_for(real):
    sub = {}
    if real.problem is None:
        return sub
    for k, s in enumerate(real.selects()):
        sub[f"%s{k}%"] = str(s._uid)
    for k, c in enumerate(real.problem.constraints.values()):
        sub[f"%c{k}%"] = str(c._uid)
    return sub


_PER_LINE = None


def per_line_canon(line):
    from harness import z3walk
    return z3walk.canon([line])[0]


def relevant_diffs(out, relevant):
    """differences between the real and the model assertion lists attributed to owners; returns
    (relevant_diffs, other_diffs) as lists of strings"""
    py, ln, owners = out["py"], out["lean"], out["owners"]
    if py is None or ln is None:
        return [], []
    if py == ln:
        return [], []
    a = [per_line_canon(x) for x in py]
    b = [per_line_canon(x) for x in ln]
    rel, oth = [], []

    def put(owner, msg):
        (rel if (owner is None or relevant(owner)) else oth).append(msg)

    sm = difflib.SequenceMatcher(a=b, b=a, autojunk=False)     # model -> real
    changed = False
    for tag, i1, i2, j1, j2 in sm.get_opcodes():
        if tag == "equal":
            continue
        changed = True
        if tag in ("replace", "delete"):
            for i in range(i1, i2):
                put(owners[i], f"[{owners[i]}] model has: {ln[i]}\n      real has : {py[j1 + (i - i1)] if tag == 'replace' and j1 + (i - i1) < j2 else '(nothing)'}")
        if tag == "insert" or (tag == "replace" and (j2 - j1) > (i2 - i1)):
            start = j1 if tag == "insert" else j1 + (i2 - i1)
            near = owners[i1 - 1] if i1 > 0 else (owners[0] if owners else None)
            nxt = owners[i1] if i1 < len(owners) else None
            for j in range(start, j2):
                o = near if (near is not None and relevant(near)) else nxt
                put(o, f"[near {near} / {nxt}] real has extra: {py[j]}")
    if not changed:
        # same formulas line by line, but the uuid-named variables are shared differently
        for i, (x, y) in enumerate(zip(py, ln)):
            if x != y:
                put(owners[i], f"[{owners[i]}] variable identity differs: real {x} / model {y}")
    return rel, oth


def check_script(driver, script, spec, cfg=None):
    """run one script through ENC (+SEM); returns a result dict"""
    from harness import enc, sem
    out = enc.run_script(driver, script, cfg)
    res = {"decl_diffs": [], "rel": [], "oth": [], "sem": None, "init_error": out["init_error"]}
    for i, (x, y) in enumerate(zip(out["results_py"], out["results_lean"])):
        if x != y:
            res["decl_diffs"].append(f"declaration {i} {json.dumps(script[i], default=str)}: real={x} model={y}")
    rel, oth = relevant_diffs(out, spec["relevant"])
    if spec.get("decl_only") and (rel or oth):
        # residues left by rejected constructors show up in the assertion list: relevant here
        rel, oth = rel + oth, []
    res["equiv"] = None
    if (rel or oth) and out["solver"] is not None and not out["init_error"]:
        # tier 2 of the correspondence: are the two assertion sets logically equivalent?
        from harness import z3walk
        sub = dict(subst_for(out["real"]))
        sub.update(z3walk.token_alignment(out["py_raw"], out["lean_raw"]))
        verdict, wit = sem.equivalence(list(out["solver"]._solver.assertions()), out["lean_raw"], sub)
        res["equiv"] = verdict
        if verdict == "equivalent":
            rel, oth = [], []
        elif verdict == "real_admits_more":
            owners = [out["owners"][i] for i in wit.get("model_formulas_false", []) if i < len(out["owners"])]
            if any(spec["relevant"](o) for o in owners) or not owners:
                res["witness"] = {"direction": "the real code admits an interpretation the model rejects",
                                  "violated_model_formulas": [out["lean_raw"][i] for i in wit.get("model_formulas_false", [])][:5],
                                  "owners": owners[:5], "model": wit["model"]}
        elif verdict == "real_admits_less":
            res["witness"] = {"direction": "the real code rejects an interpretation the model admits",
                              "violated_real_assertions": [out["py_raw"][i] for i in wit.get("real_assertions_false", [])][:5],
                              "model": wit["model"]}
    res["rel"], res["oth"] = rel, oth
    if out["init_error"]:
        res["rel"].append("initialize raised on the real code: " + out["init_error"])
    if spec.get("spec") and out["solver"] is not None and not out["init_error"]:
        _, lines = driver.send_multi(f"(spec {spec['spec']})")
        try:
            from harness import z3walk
            sub2 = dict(subst_for(out["real"]))
            sub2.update(z3walk.token_alignment(out["py_raw"], out["lean_raw"]))
            st, info = sem.find_counterexample(list(out["solver"]._solver.assertions()), lines, sub2)
        except Exception as e:  # noqa: BLE001
            st, info = "error", {"error": f"{type(e).__name__}: {e}"}
        res["sem"] = (st, info)
        res["spec_n"] = len(lines)
    res["n_assertions"] = len(out["py"] or [])
    # is the script inside the fragment of the exactness theorems (State.fragmentB, sound by `fragmentB_sound`)?  There,
    # equality of the two assertion lists makes `C05_feasible_iff` / `C07_core_attainable` statements about the real code
    try:
        res["fragment"] = driver.send_multi("(fragment)")[1] == ["true"]
        res["fragment_multi"] = sum(1 for d in script if d["op"] == "objective") >= 2 and \
            driver.send_multi("(fragment-multi)")[1] == ["true"]
        res["fragment_groups"] = False
        ans = driver.send_multi("(fragment-groups)")[1]
        if ans and ans[0].startswith("true "):
            res["fragment_groups"] = int(ans[0].split()[1]) > 0
    except Exception:  # noqa: BLE001
        res["fragment"] = False
    # EVAL: the computable evaluator of the Lean development against z3's own evaluation of the real assertions
    try:
        from harness import evalch
        res["eval"] = evalch.run_eval(driver, out, random.Random(script_key(script)), cfg, k=2)
    except Exception as e:  # noqa: BLE001
        res["eval"] = ([f"EVAL channel error {type(e).__name__}: {e}"], 0)
    return res


def run_chunk(args):
    """worker: a list of (label, script) or seeds -> summary"""
    prop, tier, items = args
    sys.path.insert(0, VERIF)
    from harness import gen
    from harness.driver import Driver
    spec = PROPS[prop]
    d = Driver()
    summary = {"n": 0, "nontrivial": [], "dist": {}, "broken": [], "violations": [], "samples": [], "other": 0,
               "sem_unknown": 0, "assertions": 0}
    try:
        for it in items:
            if it[0] in ("sm", "run"):
                run_solver_item(prop, tier, it, d, summary)
                continue
            if it[0] in ("sol", "out"):
                run_output_item(prop, tier, it, d, summary)
                continue
            if it[0] == "seed":
                _, sd, profile, size = it
                script, kinds = gen.gen_script(sd, profile, size=size, thorough=(tier == "thorough"))
                label = f"seed={sd} profile={profile}"
            else:
                _, label, script = it
                kinds = {}
            for k, v in kinds.items():
                summary["dist"][k] = summary["dist"].get(k, 0) + v
            r = check_script(d, script, spec)
            summary["n"] += 1
            summary["assertions"] += r["n_assertions"]
            if spec["nontrivial"](script):
                summary["nontrivial"].append(script_key(script))
            if len(summary["samples"]) < 2:
                from harness import pslib
                summary["samples"].append({"label": label, "script": [pslib.to_line(x) or "(solver object constructed here)" for x in script][:12]})
            if r["oth"]:
                summary["other"] += 1
            if r.get("equiv") == "equivalent":
                summary["dist"]["equivalent_rewrites"] = summary["dist"].get("equivalent_rewrites", 0) + 1
            if spec.get("decl_only") and r["decl_diffs"]:
                # an accept / reject decision that differs from the proved decision logic is itself the failing input
                summary["violations"].append({"label": label, "script": script, "kind": "ACC",
                                              "what": "; ".join(r["decl_diffs"][:3])})
            if r.get("fragment"):
                summary["dist"]["scripts_inside_exactness_fragment"] = summary["dist"].get("scripts_inside_exactness_fragment", 0) + 1
                if not (r["decl_diffs"] or r["rel"] or r["oth"] or r["init_error"]):
                    summary["dist"]["…of_which_real_assertions_equal_model"] = summary["dist"].get("…of_which_real_assertions_equal_model", 0) + 1
            if r.get("fragment_groups"):
                k = "scripts_with_task_groups_inside_the_group_exactness_theorems"
                summary["dist"][k] = summary["dist"].get(k, 0) + 1
                if not (r["decl_diffs"] or r["rel"] or r["oth"] or r["init_error"]):
                    summary["dist"]["…with_groups_of_which_real_assertions_equal_model"] = summary["dist"].get("…with_groups_of_which_real_assertions_equal_model", 0) + 1
            if r.get("fragment_multi"):
                summary["dist"]["scripts_with_several_objectives_inside_the_multi_objective_theorems"] = \
                    summary["dist"].get("scripts_with_several_objectives_inside_the_multi_objective_theorems", 0) + 1
            ev = r.get("eval") or ([], 0)
            summary["dist"]["eval_formulas_evaluated"] = summary["dist"].get("eval_formulas_evaluated", 0) + ev[1]
            if ev[0]:
                summary["broken"].append({"label": label, "script": script, "channel": "EVAL", "diffs": ev[0][:3]})
            if r["decl_diffs"] or r["rel"]:
                summary["broken"].append({"label": label, "script": script, "equiv": r.get("equiv"),
                                          "witness": r.get("witness"),
                                          "diffs": (r["decl_diffs"] + r["rel"])[:6]})
            if r["sem"] and r["sem"][0] == "found":
                summary["violations"].append({"label": label, "script": script, "kind": "SEM", **r["sem"][1]})
            if r["sem"] and r["sem"][0] in ("unknown", "error"):
                summary["sem_unknown"] += 1
    finally:
        d.close()
    return summary


def run_solver_item(prop, tier, it, d, summary):
    """SM (scripted oracle) and RUN (real z3) cases"""
    from harness import gen, smrun, pslib
    spec = PROPS[prop]
    kind, sd, profile, size = it[:4]
    rng = random.Random(sd)
    script, kinds = gen.gen_script(sd, profile, size=size, thorough=(tier == "thorough"), simple=(profile != "frag"))
    script = [x for x in script if x["op"] != "solver"]
    label = f"{kind} seed={sd} profile={profile}"
    summary["n"] += 1
    if kind == "sm":
        if rng.random() < 0.35 and not any(d["op"] == "objective" for d in script):
            # make sure single, bounded objectives in both directions are exercised
            tn = next((d["name"] for d in script if d["op"] == "task"), None)
            ni = sum(1 for d in script if d["op"] == "indicator")
            if tn is not None and all(r == "ok" for r in pslib.Real().run(script)):
                script = script + [
                    {"op": "indicator", "i": ("expr", "bounded_user", ("+", ("tstart", tn), 1), rng.choice([(0, 9), (1, 7), (2, 30)]))},
                    {"op": "objective", "o": (rng.choice(["minimizeIndicator", "maximizeIndicator"]), ni, 1)}]
        real = pslib.Real()
        real.run(script)
        if real.problem is None:
            return
        cfg, ops, answers = smrun.gen_case(rng, real, thorough=(tier == "thorough"), focus=spec.get("sm_focus"))
        if spec.get("sm_debug"):
            cfg["debug"] = True
        diffs, n, _ = smrun.run_sm_case(d, script, cfg, ops, answers)
        summary["dist"]["sm_events"] = summary["dist"].get("sm_events", 0) + n
        for o in ops:
            k = "sm_op:" + (o if isinstance(o, str) else o[0])
            summary["dist"][k] = summary["dist"].get(k, 0) + 1
        summary["dist"]["sm_cfg:" + cfg["optimizer"]] = summary["dist"].get("sm_cfg:" + cfg["optimizer"], 0) + 1
        if len(ops) > 1 or len(answers) > 2:
            summary["nontrivial"].append(script_key([script, cfg, ops, [a[:2] for a in answers]]))
        if len(summary["samples"]) < 2:
            summary["samples"].append({"label": label, "cfg": cfg, "ops": ops, "answers": [a[:2] for a in answers][:6],
                                       "script": [pslib.to_line(x) or "(solver)" for x in script][:8]})
        if diffs:
            summary["broken"].append({"label": label, "script": script, "cfg": cfg, "ops": ops, "answers": answers,
                                      "diffs": diffs, "channel": "SM"})
    else:
        probe = pslib.Real()
        if any(r != "ok" for r in probe.run(script)):
            # a declaration was rejected (and may have left a residue): RUN cases use clean problems only
            good = [d for d, r in zip(script, probe.results) if r == "ok"]
            probe2 = pslib.Real()
            if any(r != "ok" for r in probe2.run(good)):
                summary["dist"]["run_skipped_rejected_declaration"] = summary["dist"].get("run_skipped_rejected_declaration", 0) + 1
                return
            script = good
        try:
            viol = spec["run_check"](script, rng, summary, d) if spec.get("run_needs_driver") else \
                spec["run_check"](script, rng, summary)
        except Exception as e:  # noqa: BLE001
            viol = raised_by_library(e)
            if viol is None:
                raise           # an error of the harness itself: infrastructure, not a verdict
        if viol:
            summary["violations"].append({"label": label, "script": script, "kind": "RUN", **viol})


def raised_by_library(e):
    """an exception that escapes from the code under test (innermost frame inside the repository) during a search on a
    problem the library itself accepted is a difference to report, not a crash of the check"""
    import traceback
    from harness import pslib
    tb = traceback.extract_tb(e.__traceback__)
    if tb and os.path.realpath(tb[-1].filename).startswith(os.path.realpath(pslib.REPO) + os.sep):
        where = f"{os.path.relpath(tb[-1].filename, pslib.REPO)}:{tb[-1].lineno} in {tb[-1].name}"
        return {"what": f"the library raised {type(e).__name__}: {str(e)[:160]} ({where}) on a problem it accepted and solved"}
    return None


def pre_build(prop, rep):
    if PROPS[prop].get("fieldtable"):
        import subprocess
        r = subprocess.run([sys.executable, "-m", "harness.gen_fieldtable"], cwd=VERIF, capture_output=True, text=True)
        rep.notes.append("fieldtable: " + (r.stdout + r.stderr).strip()[-200:])
        rep.oblige(r.returncode == 0, "TABLE translator (pydantic field metadata -> PS/Generated/FieldTable.lean)")


def run_output_item(prop, tier, it, d, summary):
    """SOL (build_solution) and OUT (exports, gantt) cases"""
    from harness import gen, pslib
    spec = PROPS[prop]
    kind, sd, profile, size = it[:4]
    rng = random.Random(sd)
    script, kinds = gen.gen_script(sd, profile, size=size, thorough=(tier == "thorough"))
    script = [x for x in script if x["op"] != "solver"]
    label = f"{kind} seed={sd} profile={profile}"
    summary["n"] += 1
    for k, v in kinds.items():
        summary["dist"][k] = summary["dist"].get(k, 0) + v
    use_z3 = rng.random() < spec.get("z3_fraction", 0.3)
    if kind == "out" or use_z3:
        # solved cases use problems whose declarations were all accepted
        probe = pslib.Real()
        if any(r != "ok" for r in probe.run(script)):
            script = [x for x, r in zip(script, probe.results) if r == "ok"]
            if any(r != "ok" for r in pslib.Real().run(script)):
                return
    try:
        if kind == "sol":
            from harness import sol
            diffs, n = sol.run_case(d, script, rng, use_z3=use_z3)
        else:
            from harness import outch
            diffs, n = outch.run_case(d, script, rng, use_z3=use_z3, what=spec["out_what"], stats=summary["dist"])
    except Exception as e:  # noqa: BLE001
        v = raised_by_library(e)
        if v is None:
            raise
        diffs, n = [v["what"]], 1
    summary["dist"][kind + "_lines_compared"] = summary["dist"].get(kind + "_lines_compared", 0) + n
    summary["dist"][kind + ("_z3_model" if use_z3 else "_synthetic_model")] = \
        summary["dist"].get(kind + ("_z3_model" if use_z3 else "_synthetic_model"), 0) + 1
    if n:
        summary["nontrivial"].append(script_key([script, sd]))
    if len(summary["samples"]) < 2 and n:
        summary["samples"].append({"label": label, "script": [pslib.to_line(x) for x in script][:10]})
    if diffs:
        # the differing solution / output is itself the failing input
        summary["violations"].append({"label": label, "script": script, "kind": kind.upper(), "seed": sd,
                                      "what": "; ".join(diffs[:3])})


def corpus_items(prop):
    items = []
    for pat in (os.path.join(VERIF, "corpus", "common", "*.json"), os.path.join(VERIF, "corpus", prop, "*.json")):
        for fn in sorted(glob.glob(pat)):
            with open(fn) as f:
                items.append(("script", "corpus:" + os.path.basename(fn), json.load(f)["script"]))
    return items


def seeds_for(prop, seed, n, profiles, tier):
    rng = random.Random(f"{prop}-{seed}-{tier}")
    items = []
    for _ in range(n):
        r = rng.random()
        acc = 0.0
        prof = profiles[-1][0]
        for p, w in profiles:
            acc += w
            if r <= acc:
                prof = p
                break
        size = rng.choice([6, 10, 14] if tier == "quick" else [8, 14, 20, 28])
        items.append(("seed", rng.randrange(10 ** 9), prof, size))
    return items


def solver_items(prop, seed, tier, spec):
    rng = random.Random(f"{prop}-{seed}-{tier}-solver")
    items = []
    for kind in ("sm", "run", "sol", "out"):
        n = spec.get("n_" + kind, {}).get(tier, 0)
        for _ in range(n):
            prof = rng.choice(spec.get(kind + "_profiles", ["obj"]))
            items.append((kind, rng.randrange(10 ** 9), prof, rng.choice([5, 7, 9] if kind in ("sm", "run") else [8, 12, 16])))
    return items


def run_channels(prop, rep):
    spec = PROPS[prop]
    n = spec["n"][rep.tier if rep.tier in spec["n"] else "quick"]
    items = corpus_items(prop) + seeds_for(prop, rep.seed, n, spec["profiles"], rep.tier) + \
        solver_items(prop, rep.seed, rep.tier, spec)
    if spec.get("acc_grid"):
        from harness import acc
        items = [("script", label, script) for label, script in acc.grid()] + items
    workers = min(14, max(1, (os.cpu_count() or 2) - 2)) if len(items) > 60 else 1
    chunks = [items[i::workers] for i in range(workers)]
    if workers == 1:
        results = [run_chunk((prop, rep.tier, items))]
    else:
        with cf.ProcessPoolExecutor(max_workers=workers) as ex:
            results = list(ex.map(run_chunk, [(prop, rep.tier, c) for c in chunks]))
    broken, viols = [], []
    for s in results:
        rep.evaluations += s["n"]
        rep.nontrivial.update(s["nontrivial"])
        for k, v in s["dist"].items():
            rep.count(k, v)
        rep.samples += s["samples"]
        broken += s["broken"]
        viols += s["violations"]
        rep.count("scripts_with_differences_outside_this_property", s["other"])
        rep.count("sem_unknown", s["sem_unknown"])
        rep.count("assertions_compared", s["assertions"])
    if spec.get("acc_grid"):
        # the words every `Literal` field accepts, against the expected table of PS/Theorems/C18.lean
        from harness import littab
        try:
            n_lit, lit_viols = littab.run()
        except Exception as e:  # noqa: BLE001
            n_lit, lit_viols = 0, [{"what": f"literal grid could not run: {type(e).__name__}: {e}"}]
        rep.evaluations += n_lit
        rep.count("acc_literal_constructor_calls", n_lit)
        for v in lit_viols:
            viols.append({"label": "literal grid", "script": [], "kind": "ACC", **v})
    rep.oblige(not broken, f"correspondence ENC/SM ({len(broken)} of {rep.evaluations} cases differ on what this property uses)")
    rep.oblige(not viols, f"SEM: no admitted schedule of the real code violates spec{spec.get('spec')}")
    seen = set()
    for v in viols[:5]:
        key = json.dumps(v.get("failing_clauses"), sort_keys=True)
        if key in seen:
            continue
        seen.add(key)
        rep.violation({"property": prop, "kind": "SEM", "what": "the real code admits a schedule that violates the "
                       "documented meaning", **v}, True)
    exact = spec.get("exact", False)
    wit = [b for b in broken if b.get("witness") and
           (exact or b["witness"]["direction"].startswith("the real code admits"))]
    if wit and not viols and exact:
        b = min(wit, key=lambda x: len(x["script"]))
        rep.violation({"property": prop, "kind": "ENC+witness", "what": "the real constraint system differs from the "
                       "model proved exact for this property; the witness interpretation separates them", **b}, True)
        viols = [b]
    if broken and not viols:
        b = min(broken, key=lambda x: len(x["script"]))
        rep.notes.append(json.dumps(b["diffs"])[:1500])
        rep.violation({"property": prop, "kind": "ENC", "no_longer_checks": "ENC correspondence: the assertions emitted by "
                       "the real code differ from the model the theorems are about", **b,
                       "n_scripts_differing": len(broken)}, False)


def replay_known(prop, rep):
    fn = os.path.join(VERIF, "known_findings.json")
    if not os.path.exists(fn):
        return
    from harness import findings
    findings.replay_known(prop, rep, json.load(open(fn)))


def replay(prop, path):
    """re-run the script of a replay file on the current tree"""
    from harness.driver import Driver
    with open(os.path.join(VERIF, path) if not os.path.isabs(path) else path) as f:
        payload = json.load(f)
    if "script" not in payload:
        print(json.dumps(payload, indent=1)[:3000])
        return 1
    d = Driver()
    r = check_script(d, payload["script"], PROPS[prop])
    d.close()
    print(json.dumps({k: v for k, v in r.items()}, indent=1, default=str)[:4000])
    bad = bool(r["decl_diffs"] or r["rel"] or (r["sem"] and r["sem"][0] == "found"))
    if bad:
        print(f"VIOLATION property={prop} replay={path}" + ("" if r["sem"] and r["sem"][0] == "found" else " no-failing-input-found"))
    return 1 if bad else 0
