"""Per-property configuration and the channel runners."""
import concurrent.futures as cf
import difflib
import glob
import hashlib
import json
import os
import random
import re
import sys

VERIF = os.path.dirname(os.path.dirname(os.path.abspath(__file__)))

TRUSTED = [
    "Lean 4.33 kernel; axioms propext, Classical.choice, Quot.sound only (audited per theorem on every run)",
    "hand-written Lean model of the encoders (lean/PS/Model), tied to /repo by the ENC correspondence "
    "(emitted assertion lists compared formula by formula on generated scripts) — differential, generator-bounded",
    "Fml.eval is taken to be z3's semantics of the printed formula (EVAL channel samples it)",
    "z3: models satisfy the assertions; unsat is correct",
    "harness: AST walker, canonical renaming of uuid-named variables, Lean printer / s-expression reader",
    "pydantic, Python dict ordering, uuid4 uniqueness",
]

TASK_CLASSES = {"TaskStartAt", "TaskStartAfter", "TaskEndAt", "TaskEndBefore", "TaskPrecedence", "TasksStartSynced",
                "TasksEndSynced", "TasksDontOverlap", "TasksContiguous", "UnorderedTaskGroup", "OrderedTaskGroup",
                "ScheduleNTasksInTimeIntervals", "OptionalTaskForceSchedule", "OptionalTaskConditionSchedule",
                "OptionalTasksDependency", "ForceScheduleNOptionalTasks"}
RES_CLASSES = {"ResourceUnavailable", "WorkLoad", "ResourceNonDelay", "ResourceTasksDistance", "SameWorkers",
               "DistinctWorkers"}
FOL_CLASSES = {"Not", "Or", "And", "Xor", "Implies", "IfThenElse", "ConstraintFromExpression",
               "ForceApplyNOptionalConstraints"}


def owner_in(owner, prefixes=(), classes=()):
    if any(owner.startswith(p) for p in prefixes):
        return True
    if owner.startswith("constr:"):
        return owner.split(":")[2] in classes if classes else False
    return False


PROPS = {
    "C01": {
        "theorems": ["C01_task_timing", "C01_unscheduled_parked"],
        "profiles": [("core", 0.7), ("all", 0.3)],
        "relevant": lambda o: owner_in(o, ("task:", "problem")),
        "spec": "C01",
        "nontrivial": lambda s: any(d["op"] == "task" and (d.get("optional") or d.get("release") is not None
                                                            or d.get("due") is not None or d["kind"][0] != "fixed")
                                    for d in s),
        "rule": "scripts drawn from the 'core' profile (1-8 tasks of all three classes x optional x release/due/"
                "deadline x horizon/no horizon, workers, cumulative workers, selections, static/dynamic/delayed "
                "requirements); a script is non-trivial if it declares a task that is optional, has a release or due "
                "date, or is not a plain fixed-duration task; distinct = distinct script text",
        "assumptions": ["the task formulas emitted by the real code are those of the model (ENC, restricted to "
                        "owners task:* and problem)"],
        "n": {"quick": 200, "thorough": 4000},
    },
    "C10": {
        "theorems": ["C10_connective_raw", "C10_connective", "C10_optional", "C10_mandatory", "C10_forceApplyN",
                     "C10_no_leak", "C10_constraint_part"],
        "profiles": [("fol", 0.8), ("all", 0.2)],
        "relevant": lambda o: owner_in(o, (), FOL_CLASSES) or o.startswith("constr:"),
        "spec": "C10",
        "exact": True,
        "nontrivial": lambda s: any(d["op"] == "constraint" and d["c"][0] in
                                    ("not", "or", "and", "xor", "implies", "ifThenElse", "forceApplyN") for d in s),
        "rule": "scripts from the 'fol' profile: the six connectives and ConstraintFromExpression over built-in "
                "task constraints (single- and multi-assertion ones), raw expressions and earlier connectives "
                "(nesting grows with script length), optional constraints and ForceApplyN exact/min/max; non-trivial "
                "= at least one connective or force-apply rule; distinct = distinct script text",
        "assumptions": ["assertions emitted for constraints by the real code are those of the model (ENC, all constr:* owners), "
                        "or logically equivalent to them on the script (z3, tier 2)"],
        "n": {"quick": 200, "thorough": 3000},
    },
    "C02": {
        "theorems": ["C02_no_overlap", "C02_load_le_one", "C02_cumulative_capacity", "C02_busy_span",
                     "C02_selection_count", "C02_work_amount"],
        "profiles": [("core", 0.5), ("resc", 0.3), ("all", 0.2)],
        "relevant": lambda o: owner_in(o, ("req:", "worker:", "work:")),
        "spec": "C02",
        "nontrivial": lambda s: sum(1 for d in s if d["op"] == "require") >= 2,
        "rule": "scripts drawn from the 'core' profile (workers with productivities 0..3, cumulative workers of size "
                "2..5, selections of 2..5 workers x exact/min/max x n, static / dynamic / delayed requirements, work "
                "amounts); non-trivial = at least two add_required_resource calls; distinct = distinct script text",
        "assumptions": ["the requirement, non-overlap and work-amount formulas emitted by the real code are those of "
                        "the model (ENC, owners req:*, worker:*, work:*)",
                        "delay_in + early_out <= duration is the user's responsibility (DelaysFit)"],
        "n": {"quick": 200, "thorough": 4000},
    },
}


# ---------------------------------------------------------------------------------------------
def script_key(script):
    return hashlib.sha1(json.dumps(script, sort_keys=True, default=str).encode()).hexdigest()


def subst_for(real):
    sub = {}
    if real.problem is None:
        return sub
    for k, s in enumerate(real.selects()):
        sub[f"%s{k}%"] = str(s._uid)
    for k, c in enumerate(real.problem.constraints.values()):
        sub[f"%c{k}%"] = str(c._uid)
    return sub


_PER_LINE = None


def per_line_canon(line):
    from harness import z3walk
    return z3walk.canon([line])[0]


def relevant_diffs(out, relevant):
    """differences between the real and the model assertion lists attributed to owners; returns
    (relevant_diffs, other_diffs) as lists of strings"""
    py, ln, owners = out["py"], out["lean"], out["owners"]
    if py is None or ln is None:
        return [], []
    if py == ln:
        return [], []
    a = [per_line_canon(x) for x in py]
    b = [per_line_canon(x) for x in ln]
    rel, oth = [], []

    def put(owner, msg):
        (rel if (owner is None or relevant(owner)) else oth).append(msg)

    sm = difflib.SequenceMatcher(a=b, b=a, autojunk=False)     # model -> real
    changed = False
    for tag, i1, i2, j1, j2 in sm.get_opcodes():
        if tag == "equal":
            continue
        changed = True
        if tag in ("replace", "delete"):
            for i in range(i1, i2):
                put(owners[i], f"[{owners[i]}] model has: {ln[i]}\n      real has : {py[j1 + (i - i1)] if tag == 'replace' and j1 + (i - i1) < j2 else '(nothing)'}")
        if tag == "insert" or (tag == "replace" and (j2 - j1) > (i2 - i1)):
            start = j1 if tag == "insert" else j1 + (i2 - i1)
            near = owners[i1 - 1] if i1 > 0 else (owners[0] if owners else None)
            nxt = owners[i1] if i1 < len(owners) else None
            for j in range(start, j2):
                o = near if (near is not None and relevant(near)) else nxt
                put(o, f"[near {near} / {nxt}] real has extra: {py[j]}")
    if not changed:
        # same formulas line by line, but the uuid-named variables are shared differently
        for i, (x, y) in enumerate(zip(py, ln)):
            if x != y:
                put(owners[i], f"[{owners[i]}] variable identity differs: real {x} / model {y}")
    return rel, oth


def check_script(driver, script, spec, cfg=None):
    """run one script through ENC (+SEM); returns a result dict"""
    from harness import enc, sem
    out = enc.run_script(driver, script, cfg)
    res = {"decl_diffs": [], "rel": [], "oth": [], "sem": None, "init_error": out["init_error"]}
    for i, (x, y) in enumerate(zip(out["results_py"], out["results_lean"])):
        if x != y:
            res["decl_diffs"].append(f"declaration {i} {json.dumps(script[i], default=str)}: real={x} model={y}")
    rel, oth = relevant_diffs(out, spec["relevant"])
    res["equiv"] = None
    if (rel or oth) and out["solver"] is not None and not out["init_error"]:
        # tier 2 of the correspondence: are the two assertion sets logically equivalent?
        from harness import z3walk
        sub = dict(subst_for(out["real"]))
        sub.update(z3walk.token_alignment(out["py_raw"], out["lean_raw"]))
        verdict, wit = sem.equivalence(list(out["solver"]._solver.assertions()), out["lean_raw"], sub)
        res["equiv"] = verdict
        if verdict == "equivalent":
            rel, oth = [], []
        elif verdict == "real_admits_more":
            owners = [out["owners"][i] for i in wit.get("model_formulas_false", []) if i < len(out["owners"])]
            if any(spec["relevant"](o) for o in owners) or not owners:
                res["witness"] = {"direction": "the real code admits an interpretation the model rejects",
                                  "violated_model_formulas": [out["lean_raw"][i] for i in wit.get("model_formulas_false", [])][:5],
                                  "owners": owners[:5], "model": wit["model"]}
        elif verdict == "real_admits_less":
            res["witness"] = {"direction": "the real code rejects an interpretation the model admits",
                              "violated_real_assertions": [out["py_raw"][i] for i in wit.get("real_assertions_false", [])][:5],
                              "model": wit["model"]}
    res["rel"], res["oth"] = rel, oth
    if out["init_error"]:
        res["rel"].append("initialize raised on the real code: " + out["init_error"])
    if spec.get("spec") and out["solver"] is not None and not out["init_error"]:
        _, lines = driver.send_multi(f"(spec {spec['spec']})")
        try:
            from harness import z3walk
            sub2 = dict(subst_for(out["real"]))
            sub2.update(z3walk.token_alignment(out["py_raw"], out["lean_raw"]))
            st, info = sem.find_counterexample(list(out["solver"]._solver.assertions()), lines, sub2)
        except Exception as e:  # noqa: BLE001
            st, info = "error", {"error": f"{type(e).__name__}: {e}"}
        res["sem"] = (st, info)
        res["spec_n"] = len(lines)
    res["n_assertions"] = len(out["py"] or [])
    return res


def run_chunk(args):
    """worker: a list of (label, script) or seeds -> summary"""
    prop, tier, items = args
    sys.path.insert(0, VERIF)
    from harness import gen
    from harness.driver import Driver
    spec = PROPS[prop]
    d = Driver()
    summary = {"n": 0, "nontrivial": [], "dist": {}, "broken": [], "violations": [], "samples": [], "other": 0,
               "sem_unknown": 0, "assertions": 0}
    try:
        for it in items:
            if it[0] == "seed":
                _, sd, profile, size = it
                script, kinds = gen.gen_script(sd, profile, size=size, thorough=(tier == "thorough"))
                label = f"seed={sd} profile={profile}"
            else:
                _, label, script = it
                kinds = {}
            for k, v in kinds.items():
                summary["dist"][k] = summary["dist"].get(k, 0) + v
            r = check_script(d, script, spec)
            summary["n"] += 1
            summary["assertions"] += r["n_assertions"]
            if spec["nontrivial"](script):
                summary["nontrivial"].append(script_key(script))
            if len(summary["samples"]) < 2:
                from harness import pslib
                summary["samples"].append({"label": label, "script": [pslib.to_line(x) for x in script][:12]})
            if r["oth"]:
                summary["other"] += 1
            if r.get("equiv") == "equivalent":
                summary["dist"]["equivalent_rewrites"] = summary["dist"].get("equivalent_rewrites", 0) + 1
            if r["decl_diffs"] or r["rel"]:
                summary["broken"].append({"label": label, "script": script, "equiv": r.get("equiv"),
                                          "witness": r.get("witness"),
                                          "diffs": (r["decl_diffs"] + r["rel"])[:6]})
            if r["sem"] and r["sem"][0] == "found":
                summary["violations"].append({"label": label, "script": script, "kind": "SEM", **r["sem"][1]})
            if r["sem"] and r["sem"][0] in ("unknown", "error"):
                summary["sem_unknown"] += 1
    finally:
        d.close()
    return summary


def corpus_items(prop):
    items = []
    for pat in (os.path.join(VERIF, "corpus", "common", "*.json"), os.path.join(VERIF, "corpus", prop, "*.json")):
        for fn in sorted(glob.glob(pat)):
            with open(fn) as f:
                items.append(("script", "corpus:" + os.path.basename(fn), json.load(f)["script"]))
    return items


def seeds_for(prop, seed, n, profiles, tier):
    rng = random.Random(f"{prop}-{seed}-{tier}")
    items = []
    for _ in range(n):
        r = rng.random()
        acc = 0.0
        prof = profiles[-1][0]
        for p, w in profiles:
            acc += w
            if r <= acc:
                prof = p
                break
        size = rng.choice([6, 10, 14] if tier == "quick" else [8, 14, 20, 28])
        items.append(("seed", rng.randrange(10 ** 9), prof, size))
    return items


def run_channels(prop, rep):
    spec = PROPS[prop]
    n = spec["n"][rep.tier if rep.tier in spec["n"] else "quick"]
    items = corpus_items(prop) + seeds_for(prop, rep.seed, n, spec["profiles"], rep.tier)
    workers = min(14, max(1, (os.cpu_count() or 2) - 2)) if len(items) > 60 else 1
    chunks = [items[i::workers] for i in range(workers)]
    if workers == 1:
        results = [run_chunk((prop, rep.tier, items))]
    else:
        with cf.ProcessPoolExecutor(max_workers=workers) as ex:
            results = list(ex.map(run_chunk, [(prop, rep.tier, c) for c in chunks]))
    broken, viols = [], []
    for s in results:
        rep.evaluations += s["n"]
        rep.nontrivial.update(s["nontrivial"])
        for k, v in s["dist"].items():
            rep.count(k, v)
        rep.samples += s["samples"]
        broken += s["broken"]
        viols += s["violations"]
        rep.count("scripts_with_differences_outside_this_property", s["other"])
        rep.count("sem_unknown", s["sem_unknown"])
        rep.count("assertions_compared", s["assertions"])
    rep.oblige(not broken, f"ENC correspondence ({len(broken)} of {rep.evaluations} scripts differ on formulas this property uses)")
    rep.oblige(not viols, f"SEM: no admitted schedule of the real code violates spec{spec.get('spec')}")
    seen = set()
    for v in viols[:5]:
        key = json.dumps(v.get("failing_clauses"), sort_keys=True)
        if key in seen:
            continue
        seen.add(key)
        rep.violation({"property": prop, "kind": "SEM", "what": "the real code admits a schedule that violates the "
                       "documented meaning", **v}, True)
    exact = spec.get("exact", False)
    wit = [b for b in broken if b.get("witness") and
           (exact or b["witness"]["direction"].startswith("the real code admits"))]
    if wit and not viols and exact:
        b = min(wit, key=lambda x: len(x["script"]))
        rep.violation({"property": prop, "kind": "ENC+witness", "what": "the real constraint system differs from the "
                       "model proved exact for this property; the witness interpretation separates them", **b}, True)
        viols = [b]
    if broken and not viols:
        b = min(broken, key=lambda x: len(x["script"]))
        rep.notes.append(json.dumps(b["diffs"])[:1500])
        rep.violation({"property": prop, "kind": "ENC", "no_longer_checks": "ENC correspondence: the assertions emitted by "
                       "the real code differ from the model the theorems are about", **b,
                       "n_scripts_differing": len(broken)}, False)


def replay_known(prop, rep):
    fn = os.path.join(VERIF, "known_findings.json")
    if not os.path.exists(fn):
        return
    from harness import findings
    findings.replay_known(prop, rep, json.load(open(fn)))


def replay(prop, path):
    """re-run the script of a replay file on the current tree"""
    from harness.driver import Driver
    with open(os.path.join(VERIF, path) if not os.path.isabs(path) else path) as f:
        payload = json.load(f)
    if "script" not in payload:
        print(json.dumps(payload, indent=1)[:3000])
        return 1
    d = Driver()
    r = check_script(d, payload["script"], PROPS[prop])
    d.close()
    print(json.dumps({k: v for k, v in r.items()}, indent=1, default=str)[:4000])
    bad = bool(r["decl_diffs"] or r["rel"] or (r["sem"] and r["sem"][0] == "found"))
    if bad:
        print(f"VIOLATION property={prop} replay={path}" + ("" if r["sem"] and r["sem"][0] == "found" else " no-failing-input-found"))
    return 1 if bad else 0
