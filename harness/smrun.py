"""Generation and execution of SM cases (scripted oracle) and RUN cases (real z3) for the solver
properties C07, C12, C13, C15, C19."""
import io
import contextlib
import random
import warnings

import z3

import processscheduler as ps

from harness import pslib, sm, gen, z3walk


def target_names(real):
    names = ["horizon", "Indicator_EquivalentIndicator"]
    for o in real.problem.objectives.values():
        try:
            names.append(o._target.decl().name())
        except Exception:  # noqa: BLE001
            pass
    return list(dict.fromkeys(names))


def gen_case(rng, real, thorough=False, focus=None):
    """a configuration, a sequence of public calls and a scripted oracle"""
    nobj = len(real.problem.objectives)
    cfg = {"optimizer": rng.choice(["incremental", "incremental", "optimize"]),
           "optimize_priority": rng.choice(["pareto", "lex", "box", "weight"]),
           "debug": rng.random() < 0.2,
           "max_time": rng.choice([20, 20, 3, 6])}
    if rng.random() < 0.4:
        cfg["max_iter"] = rng.choice([1, 2, 3, 5])
    if rng.random() < 0.15:
        cfg["logics"] = rng.choice(["QF_LIA", "QF_IDL"])
    multi_equiv = nobj > 1 and (cfg["optimizer"] == "incremental" or cfg["optimize_priority"] == "weight")
    pool = ["solve"] * 5 + ["findAnother"] * 3 + ["export"] + (["initialize"] if not multi_equiv else [])
    tnames = list(real.tasks)
    if tnames:
        pool += [("findAnotherVar", f"{rng.choice(tnames)}_start"), ("findAnotherVar", f"{rng.choice(tnames)}_end")]
    nops = rng.randint(1, 8 if thorough else 5)
    ops = [rng.choice(pool) for _ in range(nops)]
    if focus == "solve":
        ops = ["solve"] + ops[:2]
    # after an explicit initialize with several objectives the library raises (finding F23): keep one
    targets = target_names(real)
    bounds = []
    for o in real.problem.objectives.values():
        if getattr(o, "_bounds", None):
            bounds += [b for b in o._bounds if b is not None]
    answers = []
    cur = rng.randint(5, 40)
    for _ in range(rng.randint(1, 14 if thorough else 9)):
        r = rng.random()
        d = rng.choice([0, 0, 1, 1, 2, 7])
        if r < 0.68:
            step = rng.choice([1, 2, 5])
            cur = cur + rng.choice([-step, -step, step])
            v = rng.choice(bounds) if bounds and rng.random() < (0.6 if not answers else 0.3) else cur
            vals = {t: v for t in targets}
            for t in tnames:
                s0 = rng.randint(0, 6)
                vals[f"{t}_start"] = s0
                vals[f"{t}_end"] = s0 + rng.randint(0, 3)
                if real.tasks[t].optional:
                    vals[f"{t}_scheduled"] = rng.random() < 0.7
            answers.append(("sat", d, vals))
        elif r < 0.9:
            answers.append(("unsat", d))
        else:
            answers.append(("unknown", d))
    return cfg, ops, answers


def run_sm_case(driver, script, cfg, ops, answers):
    """returns (diffs, trace_len) – compares the call traces of the real solver object and the model"""
    real = pslib.Real()
    real.run(script)
    driver.reset()
    for d in script:
        if pslib.to_line(d) is not None:
            driver.send(pslib.to_line(d))
    if real.problem is None:
        return [], 0, real
    a = sm.canon_trace(sm.run_real(real, cfg, ops, answers))
    b = sm.canon_trace(sm.run_model(driver, real, cfg, ops, answers))
    diffs = []
    if a != b:
        for i in range(max(len(a), len(b))):
            x = a[i] if i < len(a) else "(end)"
            y = b[i] if i < len(b) else "(end)"
            if x != y:
                diffs.append(f"event {i}: real={x[:300]} model={y[:300]}")
                if len(diffs) >= 4:
                    break
    return diffs, len(a), real


# ------------------------------------------------------------------------------ real z3 runs
@contextlib.contextmanager
def silent():
    with contextlib.redirect_stdout(io.StringIO()), warnings.catch_warnings():
        warnings.simplefilter("ignore")
        yield


def fresh_assertions(script):
    """the problem's assertions from a fresh build (no bounds, no blocking clauses)"""
    real = pslib.Real()
    real.run(script)
    s = real.initialize()
    return real, list(s._solver.assertions())


def script_weights(script):
    """declared weights, in declaration order, read from the script (not from the objects)"""
    ws = []
    for d in script or []:
        if d["op"] == "objective":
            o = d["o"]
            ws.append(o[2] if o[0] in ("maximizeIndicator", "minimizeIndicator") else 1)
    return ws


def objective_setup(real, cfg, script=None):
    """(target z3 expr, is_min) the solver optimises under cfg, or None"""
    objs = list(real.problem.objectives.values())
    ws = script_weights(script)
    if len(ws) != len(objs):
        ws = [o.weight for o in objs]
    if not objs:
        return None
    if len(objs) == 1:
        return objs[0]._target, objs[0].kind == "minimize"
    if cfg.get("optimizer", "incremental") == "incremental" or cfg.get("optimize_priority") == "weight":
        kinds = {o.kind for o in objs}
        if len(kinds) != 1:
            return None        # mixed directions: outside the property
        return z3.Sum([w * o._target for w, o in zip(ws, objs)]), objs[-1].kind == "minimize"
    return None


def stable_consts(assertions):
    """uninterpreted constants whose names do not depend on the run (no uuid / counter inside)"""
    from harness import sem
    out = []
    for n, srt in sem.sorts_of(assertions).items():
        if z3walk.UNSTABLE.search(n):
            continue
        out.append(z3.Bool(n) if srt == "Bool" else z3.Int(n) if srt == "Int" else None)
    return [c for c in out if c is not None]


def invalid_against(base, m, timeout_ms=15000):
    """is the schedule of model `m` (its values for the stably named variables: task times, durations,
    scheduled flags, busy intervals, horizon, indicators declared by name) admitted by the independently
    built assertion list `base`?  Returns [] if it is, else a description."""
    s = z3.Solver()
    s.set("timeout", timeout_ms)
    s.add(base)
    pins = []
    for c in stable_consts(base):
        v = m.eval(c, model_completion=False)
        if z3.is_int_value(v) or z3.is_true(v) or z3.is_false(v):
            pins.append(c == v)
    s.add(pins)
    r = s.check()
    if r == z3.unsat:
        return [f"the returned values of {len(pins)} stably named variables are rejected by a fresh build of the problem"]
    return []


def value_of(model, expr):
    return model.eval(expr, model_completion=True).as_long()


def run_real_solve(script, cfg, timeout_s=10):
    """solve with the real library and real z3; returns dict(result, value, model_ok, better_exists, …)"""
    real = pslib.Real()
    real.run(script)
    out = {"cfg": cfg}
    if real.problem is None:
        return out
    setup = objective_setup(real, cfg, script)
    with silent():
        s = ps.SchedulingSolver(problem=real.problem, max_time=timeout_s, **cfg)
        try:
            sol = s.solve()
        except Exception as e:  # noqa: BLE001
            out["raised"] = f"{type(e).__name__}: {e}"
            return out
    out["result"] = bool(sol)
    _, base = fresh_assertions(script)
    # the solver's own level-0 assertions (same variable names as the objective target)
    own = list(s._solver.assertions())
    chk = z3.Solver()
    chk.set("timeout", timeout_s * 1000)
    chk.add(own)
    if cfg.get("debug"):
        # tracked assertions are `asst_<id> => a`; z3 checks them under the assumption of every literal
        from harness import sem
        chk.add([z3.Bool(n) for n, srt in sem.sorts_of(own).items() if srt == "Bool" and n.startswith("asst_")])
    if not sol:
        out["base_status"] = str(chk.check())
        return out
    m = s._model
    out["violated_assertions"] = invalid_against(base, m)
    if setup is not None:
        target, is_min = setup
        try:
            v = value_of(m, target)
        except Exception:  # noqa: BLE001
            return out
        out["value"] = v
        chk.add(target < v if is_min else target > v)
        out["better_status"] = str(chk.check())
        if out["better_status"] == "sat":
            out["better_value"] = value_of(chk.model(), target)
    return out


# ------------------------------------------------------------------------------ adversarial, consistent oracle
class WorstFirstSolver:
    """A z3.Solver stand-in that keeps a real z3.Solver underneath and answers every check() truthfully, but always
    with the admissible model that is WORST for the objective (any model is a legitimate answer of an SMT solver, so
    this is z3's contract, with the nondeterminism resolved against the optimiser).  Lets the search reach the exits
    of the incremental loop that the default model of z3 rarely reaches (declared bound met, several iterations)."""

    def __init__(self, target, is_min, log):
        self.inner = z3.Solver()
        self.inner.set("timeout", 10000)
        self.target, self.is_min, self.log = target, is_min, log
        self._model = None

    def add(self, *a):
        self.inner.add(*a)

    def assert_and_track(self, a, p):
        self.inner.assert_and_track(a, p)

    def assertions(self):
        return self.inner.assertions()

    def push(self):
        self.inner.push()

    def pop(self):
        self.inner.pop()

    def num_scopes(self):
        return self.inner.num_scopes()

    def set(self, *a, **k):
        pass

    def check(self):
        r = self.inner.check()
        if r != z3.sat:
            self.log.append(str(r))
            return r
        o = z3.Optimize()
        o.set("timeout", 10000)
        o.add(self.inner.assertions())
        h = o.maximize(self.target) if self.is_min else o.minimize(self.target)
        try:
            worst = o.check() == z3.sat and z3.is_int_value(h.value())
        except z3.Z3Exception:
            # z3.Optimize refuses quantified constraints (concurrent buffers): any model is a legitimate answer
            worst = False
        if worst:
            self._model = o.model()
        else:
            self._model = self.inner.model()
        self.log.append(f"sat {self._model.eval(self.target, model_completion=True)}")
        return z3.sat

    def model(self):
        return self._model

    def reason_unknown(self):
        return self.inner.reason_unknown()

    def unsat_core(self):
        return self.inner.unsat_core()

    def statistics(self):
        return self.inner.statistics()

    def to_smt2(self):
        return self.inner.to_smt2()

    def sexpr(self):
        return self.inner.sexpr()


def adversarial_incremental_solve(script, extra_cfg=None):
    """solve with the real incremental optimiser against the worst-first oracle; returns dict(result, value,
    better_value?, answers)"""
    import types
    import processscheduler.solver as ps_solver
    real = pslib.Real()
    real.run(script)
    out = {}
    setup = objective_setup(real, {"optimizer": "incremental"}, script)
    if real.problem is None or setup is None:
        return None
    log = []

    class Proxy(types.ModuleType):
        def __getattr__(self, n):
            if n in ("Solver",):
                return lambda *a, **k: WorstFirstSolver(box["target"], box["is_min"], log)
            if n == "SolverFor":
                return lambda *a, **k: WorstFirstSolver(box["target"], box["is_min"], log)
            return getattr(z3, n)
    box = {"target": setup[0], "is_min": setup[1]}
    old = ps_solver.z3
    ps_solver.z3 = Proxy("z3proxy")
    said = io.StringIO()
    try:
        with contextlib.redirect_stdout(said), warnings.catch_warnings():
            warnings.simplefilter("ignore")
            s = ps.SchedulingSolver(problem=real.problem, max_time=30, optimizer="incremental", **(extra_cfg or {}))
            s.initialize()
            # several objectives: the target is the equivalent objective built by initialize
            st2 = objective_setup(real, {"optimizer": "incremental"}, script)
            try:
                sol = s.solve()
            except Exception as e:  # noqa: BLE001
                out["raised"] = f"{type(e).__name__}: {e}"
                return out
    finally:
        ps_solver.z3 = old
    # the search is anytime: leaving the loop on the time budget (measured or extrapolated) is a documented exit
    # … and so is an `unknown` answer of z3 (the loop leaves silently: solver.py, `if is_sat == z3.unknown: break`);
    # the oracle's inner solver gives up after 10 s, which happens on nonlinear costs and on a loaded machine
    out["time_stop"] = "Max time" in said.getvalue() or any(a == "unknown" for a in log)
    out["result"] = bool(sol)
    out["answers"] = log[:40]
    if not sol:
        return out
    target, is_min = st2
    v = value_of(s._model, target)
    out["value"] = v
    chk = z3.Solver()
    chk.set("timeout", 10000)
    chk.add(list(s._solver.assertions()))
    chk.add(target < v if is_min else target > v)
    r = chk.check()
    out["better_status"] = str(r)
    if r == z3.sat:
        out["better_value"] = value_of(chk.model(), target)
    return out
