"""ACC channel: an exhaustive boundary-value grid of constructor calls (valid and invalid), each
executed after a fixed context on the real library and on the model; accept / reject and the
exception class must agree, and so must the assertions emitted afterwards (residues)."""

CTX = [
    {"op": "problem", "name": "p", "horizon": 20},
    {"op": "task", "name": "A", "kind": ("fixed", 2)},
    {"op": "task", "name": "B", "kind": ("fixed", 3), "optional": True},
    {"op": "task", "name": "V", "kind": ("var", 1, 4, None)},
    {"op": "task", "name": "Z", "kind": ("zero",)},
    {"op": "worker", "name": "W1"}, {"op": "worker", "name": "W2"}, {"op": "worker", "name": "W3"},
    {"op": "cumulative", "name": "CW", "size": 2},
    {"op": "cumulative", "name": "CU", "size": 2},
    {"op": "select", "workers": ["W1", "W2"], "n": 1, "kind": "exact"},
    {"op": "require", "task": "A", "res": ("worker", "W1")},
    {"op": "require", "task": "V", "res": ("worker", "W1")},
    {"op": "require", "task": "B", "res": ("select", 0)},
    {"op": "require", "task": "V", "res": ("cumul", "CW")},
    {"op": "constraint", "c": ("startAt", "A", 0)},
    {"op": "constraint", "c": ("startAt", "B", 1), "optional": True},
    {"op": "buffer", "name": "BF", "initial": 5},
    {"op": "indicator", "i": ("expr", "i0", ("+", ("tstart", "A"), 1), None)},
]


def probes():
    P = []
    add = P.append
    for d in (-1, 0, 1, 2):
        add({"op": "task", "name": "N", "kind": ("fixed", d)})
    for w in (-1, 0, 1):
        add({"op": "task", "name": "N", "kind": ("fixed", 1), "work": w})
        add({"op": "task", "name": "N", "kind": ("zero",), "work": w})
    for p in (-1, 0, 1):
        add({"op": "task", "name": "N", "kind": ("fixed", 1), "prio": p})
        add({"op": "task", "name": "N", "kind": ("var", 0, None, None), "prio": p})
    for mn in (-1, 0, 1):
        for mx in (None, -1, 0, 1):
            for al in (None, [0], [1, 2], [-1, 3]):
                add({"op": "task", "name": "N", "kind": ("var", mn, mx, al)})
    for nm in ("A", "B", "Z", "W1", "N"):
        add({"op": "task", "name": nm, "kind": ("fixed", 1), "optional": True})
    for pr in (-1, 0, 1):
        add({"op": "worker", "name": "N", "prod": pr})
    for nm in ("W1", "A", "CW", "CW_CumulativeWorker_1"):
        add({"op": "worker", "name": nm})
    for size in (-1, 0, 1, 2, 3):
        for pr in (-1, 0, 1, 3):
            add({"op": "cumulative", "name": "N", "size": size, "prod": pr})
    add({"op": "cumulative", "name": "CW", "size": 2})
    add({"op": "cumulative", "name": "W1", "size": 2})
    add({"op": "cumulative", "name": "N", "size": 2, "cost": ("linear", 1, 1)})
    add({"op": "cumulative", "name": "N", "size": 2, "cost": ("const", 7)})
    for ws in ([], ["W1"], ["W1", "W2"], ["W1", "W2", "W3"]):
        for n in (-1, 0, 1, 2, 3, 4):
            add({"op": "select", "workers": ws, "n": n, "kind": "min"})
    # selections that list cumulative workers themselves: the count is checked against the LISTED entries
    for ws in (["W1", "CW"], ["CW", "CU"], ["W1", "W2", "CW"], ["CW"]):
        for n in (0, 1, 2, 3, 4, 5):
            add({"op": "select", "workers": ws, "n": n, "kind": "min"})
    for k in ("exact", "min", "max"):
        add({"op": "select", "workers": ["W2", "W3"], "n": 1, "kind": k, "name": "mysel"})
    for h in (None, -1, 0, 1, 5):
        add({"op": "problem", "name": "q", "horizon": h})
    # requirements
    add({"op": "require", "task": "A", "res": ("worker", "W1")})
    add({"op": "require", "task": "A", "res": ("worker", "W2")})
    add({"op": "require", "task": "B", "res": ("worker", "W1")})
    add({"op": "require", "task": "B", "res": ("select", 0)})
    add({"op": "require", "task": "Z", "res": ("cumul", "CW")})
    add({"op": "require", "task": "A", "res": ("worker", "W3"), "dynamic": True})
    add({"op": "require", "task": "A", "res": ("worker", "W3"), "delay_in": 1, "early_out": 1})
    # optional-task rules
    for t in ("A", "B", "V"):
        for bb in (True, False):
            add({"op": "constraint", "c": ("forceSchedule", t, bb)})
        add({"op": "constraint", "c": ("conditionSchedule", t, (">", ("tstart", "A"), 3))})
        for u in ("A", "B"):
            add({"op": "constraint", "c": ("dependency", t, u)})
    # (every kind and every count around the list length: a rule that is trivially true, e.g. "at most n of m <= n",
    #  must still reject a mandatory member)
    for ts in (["A"], ["B"], ["A", "B"], ["B", "A"], []):
        for n in (-1, 0, 1, 2, 3):
            for kd in ("exact", "min", "max"):
                add({"op": "constraint", "c": ("forceScheduleN", ts, n, kd)})
    for cs in ([0], [1], [0, 1], [1, 0], []):
        for n in (-1, 0, 1, 2, 3):
            for kd in ("exact", "min", "max"):
                add({"op": "constraint", "c": ("forceApplyN", cs, n, kd)})
    # resource constraints on assigned / unassigned / cumulative resources
    for r in ("W1", "W2", "W3", "CW", "CU"):
        add({"op": "constraint", "c": ("unavailable", r, [(1, 3)])})
        add({"op": "constraint", "c": ("unavailable", r, [])})
        add({"op": "constraint", "c": ("workload", r, [(0, 5, 2)], "max")})
        add({"op": "constraint", "c": ("workload", r, [], "max")})
        add({"op": "constraint", "c": ("nonDelay", r)})
        add({"op": "constraint", "c": ("distance", r, 1, None, "min")})
        add({"op": "constraint", "c": ("interrupted", r, [(1, 3)])})
        add({"op": "constraint", "c": ("periodicallyUnavailable", r, [(1, 3)], 7, 0, 0, None)})
    # the periodic classes: every list of one or two intervals around the period (inside it, touching its end, beyond it,
    # in both orders) — whether a list is well formed must not depend on which interval comes first or is the largest
    pool = [(0, 2), (1, 2), (4, 6), (0, 7), (2, 8), (5, 7)]
    for cls in ("periodicallyInterrupted", "periodicallyUnavailable"):
        for ivs in [[a] for a in pool] + [[a, b] for a in pool for b in pool if a != b]:
            add({"op": "constraint", "c": (cls, "W1", ivs, 6, 0, 0, None)})
    for off in (-1, 0, 1):
        add({"op": "constraint", "c": ("precedence", "A", "B", off, "lax")})
    add({"op": "constraint", "c": ("startAt", "A", 3), "name": "dup"})
    add({"op": "constraint", "c": ("contiguous", ["A"])})
    add({"op": "constraint", "c": ("contiguous", ["A", "V"])})
    for i, f in ((None, None), (5, None), (None, 5), (5, 5)):
        add({"op": "buffer", "name": "N", "initial": i, "final": f})
    add({"op": "buffer", "name": "BF", "initial": 1})
    add({"op": "constraint", "c": ("indicatorBounds", 0, None, None)})
    add({"op": "constraint", "c": ("indicatorBounds", 0, 0, None)})
    add({"op": "constraint", "c": ("indicatorTarget", 0, 0)})
    add({"op": "indicator", "i": ("expr", "i0", ("tstart", "A"), None)})
    add({"op": "indicator", "i": ("idle", "W3")})
    add({"op": "indicator", "i": ("idle", "W1")})
    add({"op": "indicator", "i": ("utilization", "CW")})
    add({"op": "objective", "o": ("makespan",)})
    add({"op": "constraint", "c": ("fromExpr", True)})
    return P


def grid():
    """list of (label, script)"""
    out = []
    for i, p in enumerate(probes()):
        out.append((f"acc:ctx+{i}", CTX + [p]))
        # every element created before a problem exists (only calls that reference nothing else)
        if p["op"] in ("task", "worker", "cumulative", "buffer") or p.get("o") == ("makespan",) \
                or p.get("c") == ("fromExpr", True):
            out.append((f"acc:noproblem+{i}", [p]))
    # a declaration repeated twice (duplicate names for auto-named and named elements)
    for i, p in enumerate(probes()):
        if p["op"] in ("task", "worker", "cumulative", "buffer") or p.get("name"):
            out.append((f"acc:twice+{i}", CTX + [p, p]))
    # a rejected element followed by the corrected one under the same name: no residue may change the verdict
    retry = [
        ({"op": "task", "name": "N", "kind": ("fixed", 0)}, {"op": "task", "name": "N", "kind": ("fixed", 1)}),
        ({"op": "task", "name": "N", "kind": ("var", -1, None, None)}, {"op": "task", "name": "N", "kind": ("zero",)}),
        ({"op": "worker", "name": "N", "prod": -1}, {"op": "worker", "name": "N", "prod": 1}),
        ({"op": "cumulative", "name": "N", "size": 1}, {"op": "cumulative", "name": "N", "size": 2}),
        ({"op": "cumulative", "name": "N", "size": 2, "cost": ("linear", 1, 1)}, {"op": "cumulative", "name": "N", "size": 2}),
        ({"op": "select", "name": "mysel", "workers": ["W2", "W3"], "n": 3, "kind": "min"},
         {"op": "select", "name": "mysel", "workers": ["W2", "W3"], "n": 1, "kind": "min"}),
        ({"op": "select", "name": "mysel", "workers": ["W2"], "n": 1, "kind": "min"},
         {"op": "select", "name": "mysel", "workers": ["W2", "W3"], "n": 2, "kind": "exact"}),
        ({"op": "buffer", "name": "N"}, {"op": "buffer", "name": "N", "initial": 5}),
        ({"op": "constraint", "c": ("forceSchedule", "A", True), "name": "nc"}, {"op": "constraint", "c": ("startAt", "A", 3), "name": "nc"}),
        ({"op": "constraint", "c": ("unavailable", "W3", [(1, 2)]), "name": "nc"}, {"op": "constraint", "c": ("unavailable", "W1", [(1, 2)]), "name": "nc"}),
        ({"op": "constraint", "c": ("precedence", "A", "B", -1, "lax"), "name": "nc"}, {"op": "constraint", "c": ("precedence", "A", "B", 1, "lax"), "name": "nc"}),
        ({"op": "problem", "name": "q", "horizon": 0}, {"op": "task", "name": "N", "kind": ("fixed", 1)}),
    ]
    for i, (bad, good) in enumerate(retry):
        out.append((f"acc:retry+{i}", CTX + [bad, good, {"op": "require", "task": "A", "res": ("worker", "W2")}]))
    return out
