"""RUN checks (real library + real z3) for the solver-object properties.  Each returns None or a
dict describing a concrete violation (the script is added by the caller and is the replay)."""
import contextlib
import io
import os
import re
import time
import warnings

import z3

import processscheduler as ps

from harness import pslib, smrun, z3walk


@contextlib.contextmanager
def no_stderr():
    """z3's verbose output goes to the C-level stderr"""
    fd = os.dup(2)
    dn = os.open(os.devnull, os.O_WRONLY)
    try:
        os.dup2(dn, 2)
        yield
    finally:
        os.dup2(fd, 2)
        os.close(dn)
        os.close(fd)
        z3.set_option("verbose", 0)


def count(summary, k):
    summary["dist"][k] = summary["dist"].get(k, 0) + 1


def objectives_of(script):
    return [d for d in script if d["op"] == "objective"]


# ---------------------------------------------------------------------------------- C07
def f42_region(script):
    """findings F42 / F44: where z3.Optimize now and then returns a valid but non-optimal model, the built-in optimiser is
    not compared.  F42: with an accessed buffer the assertions are quantified (ConcurrentBuffer: z3 prints "optimization
    with quantified constraints is not supported") or range over arrays (NonConcurrentBuffer).  F44: a resource with a
    non-constant cost function puts products of variables (cost(start) + cost(end)) * (end - start) into the resource-cost
    indicator: nonlinear integer arithmetic"""
    # (arrays of a NonConcurrentBuffer have the same effect: thorough tier, every third call of one process)
    if any(d["op"] == "buffer" for d in script) and \
            any(d["op"] == "constraint" and d["c"][0] in ("loadBuffer", "unloadBuffer") for d in script):
        return "F42"
    if any(d["op"] in ("worker", "cumulative") and (d.get("cost") or ("const", 0))[0] != "const" for d in script) and \
            any((d["op"] == "objective" and d["o"][0] == "resourceCost") or (d["op"] == "indicator" and d["i"][0] == "resourceCost")
                for d in script):
        return "F44"
    return None


def builtin_suboptimal_is_stable(script, cfg, summary, label, n=6):
    """z3.Optimize of the z3 4.12.6 binding now and then returns a non-optimal model for a problem it optimises correctly
    on the next call (recorded findings F44, F46: z3's answer varies from call to call within one process, with the
    library handing it the same, right problem).  A defect of the *library* — an objective not handed over, handed over
    after another one, a wrong target — is the same on every call: the built-in optimiser is reported as non-optimal
    only when `n` further calls all return a schedule that a valid one strictly improves."""
    for _ in range(n):
        with smrun.silent(), no_stderr():
            r = smrun.run_real_solve(script, dict(cfg))
        z3.set_option("parallel.enable", False)
        if not (r.get("result") and r.get("better_status") == "sat"):
            count(summary, f"{label}_builtin_nonoptimal_once_optimal_on_a_later_call_z3_unstable")
            return False
    return True


def run_c07(script, rng, summary, driver=None):
    real = pslib.Real()
    res = real.run(script)
    if not objectives_of(script) or len(real.problem.objectives) == 0:
        # no objective of its own: the weighted-sum probe declares its own objectives
        count(summary, "run_c07_no_objective_weighted_probe_only")
        return weighted_probe(script, real, rng, summary)
    nobj = len(real.problem.objectives)
    cfg_inc = {"optimizer": "incremental"}
    cfg_opt = {"optimizer": "optimize", "optimize_priority": "weight" if nobj > 1 else rng.choice(["pareto", "lex", "box"])}
    if smrun.objective_setup(real, cfg_inc, script) is None:
        count(summary, "run_c07_mixed_directions_weighted_probe_only")
        return weighted_probe(script, real, rng, summary)
    t0 = time.time()
    a = smrun.run_real_solve(script, cfg_inc)
    dt = time.time() - t0
    b = smrun.run_real_solve(script, cfg_opt)
    count(summary, "run_c07")
    summary["nontrivial"].append("run" + str(hash(str(script))))
    for r, nm in ((a, "incremental"), (b, "optimize")):
        if r.get("raised"):
            return {"what": f"{nm} optimiser raised {r['raised']}", "runs": [a, b]}
        if r.get("violated_assertions"):
            return {"what": f"{nm} optimiser returned an invalid schedule", "runs": [a, b]}
    if a.get("result") and dt < 3 and a.get("better_status") == "sat":
        return {"what": f"incremental optimiser returned value {a.get('value')} but a valid schedule with value "
                        f"{a.get('better_value')} exists", "runs": [a, b]}
    if f42_region(script):
        count(summary, f"run_c07_builtin_not_compared_known_{f42_region(script)}_region")
    if b.get("result") and b.get("better_status") == "sat" and not f42_region(script) and \
            builtin_suboptimal_is_stable(script, cfg_opt, summary, "run_c07"):
        return {"what": f"builtin optimiser returned value {b.get('value')} but a valid schedule with value "
                        f"{b.get('better_value')} exists", "runs": [a, b]}
    if a.get("result") and b.get("result") and dt < 3 and not f42_region(script) and a.get("value") is not None and b.get("value") is not None \
            and a["value"] != b["value"] and a.get("better_status") == "unsat" == b.get("better_status"):
        return {"what": f"the two optimisers disagree: {a['value']} vs {b['value']}", "runs": [a, b]}
    if a.get("result") is False and a.get("base_status") == "sat":
        return {"what": "incremental optimiser reports no solution on a satisfiable problem", "runs": [a]}
    v = search_residue(script, summary)
    if v:
        return v
    if driver is not None:
        v = model_optimum_probe(script, driver, summary)
        if v:
            return v
    v = worst_first_probe(script, real, rng, summary, "run_c07")
    if v:
        return v
    v = weighted_probe(script, real, rng, summary)
    if v:
        return v
    # early stops: still valid, and no better than the optimum
    k = rng.choice([1, 2, 3])
    c = smrun.run_real_solve(script, {"optimizer": "incremental", "max_iter": k})
    count(summary, f"run_c07_max_iter_{k}")
    if c.get("violated_assertions"):
        return {"what": f"max_iter={k}: returned schedule violates the problem's assertions", "runs": [c]}
    if a.get("result") and c.get("result") is False and c.get("base_status") == "sat" and k >= 1:
        return {"what": f"max_iter={k}: no schedule returned although the first check is satisfiable", "runs": [a, c]}
    return None


def model_optimum_probe(script, driver, summary):
    """the optimum the library reports against the assertion list of the *Lean model* of the same script (the list the
    exactness theorems `C07_core_attainable` / `C07_groups_attainable` / `C07_weighted_attainable` speak about): when the
    library's own constraint system admits nothing better than the reported value but the model's list does, the
    reported value is not the optimum of the documented problem — whatever both optimisers agree on"""
    from harness import sem, props as P
    real = pslib.Real()
    real.run(script)
    if real.problem is None or len(real.problem.objectives) != 1:
        return None
    if real.buffers:
        # arrays / pulse functions: the harness does not rebuild them from the model's printout as z3 terms of the
        # real sorts (the ENC channel compares them as text), so the probe stays on problems without buffers
        count(summary, "run_c07_model_list_probe_skipped_buffers")
        return None
    cfg = {"optimizer": "incremental"}
    setup = smrun.objective_setup(real, cfg, script)
    if setup is None:
        return None
    target, is_min = setup
    with smrun.silent():
        s = ps.SchedulingSolver(problem=real.problem, max_time=10, **cfg)
        try:
            sol = s.solve()
        except Exception:  # noqa: BLE001
            return None
    if not sol:
        return None
    own = list(s._solver.assertions())
    try:
        v = smrun.value_of(s._model, target)
    except Exception:  # noqa: BLE001
        return None
    driver.reset()
    for d in script:
        if pslib.to_line(d) is not None:
            driver.send(pslib.to_line(d))
    _, lean_lines = driver.send_multi("(initialize (debug false))")
    lean = [l.split("\t", 1)[1] for l in lean_lines if "\t" in l]
    sub = dict(P.subst_for(real))
    try:
        sub.update(z3walk.token_alignment([z3walk.sx(a) for a in own], lean))
        b = sem.Builder(sem.sorts_of(own), sub)
        model_fs = [b.fml(sem.parse_sexp(l)) for l in lean]
    except Exception:  # noqa: BLE001
        count(summary, "run_c07_model_list_unbuildable")
        return None
    better = target < v if is_min else target > v
    chk = z3.Solver()
    chk.set("timeout", 10000)
    chk.add(model_fs)
    chk.add(better)
    r = chk.check()
    count(summary, f"run_c07_reported_optimum_vs_model_assertion_list_{r}")
    if r != z3.sat:
        return None
    m = chk.model()
    chk2 = z3.Solver()
    chk2.set("timeout", 10000)
    chk2.add(own)
    chk2.add(better)
    if chk2.check() != z3.unsat:
        return None             # the library's own system admits it too: an early stop, judged by the other probes
    vals = {d.name(): str(m[d]) for d in m.decls() if d.arity() == 0}
    return {"what": f"the library reports {v} as the optimum and its own constraint system admits nothing better, but the "
                    f"assertion list of the model (the documented meaning of the same declarations) admits a schedule "
                    f"with value {smrun.value_of(m, target)}",
            "better_interpretation": {k: vals[k] for k in sorted(vals)[:60]}}


def search_residue(script, summary):
    """after solve() returns, the incremental optimiser must have removed every bound it pushed: the solver object's own
    assertions admit every schedule of the problem (a leftover bound silently excludes schedules from every later call)"""
    real = pslib.Real()
    real.run(script)
    if real.problem is None or real.problem.horizon is None or len(real.problem.objectives) != 1:
        return None
    with smrun.silent(), no_stderr():
        s = ps.SchedulingSolver(problem=real.problem, max_time=10)
        s.initialize()
        base = list(s._solver.assertions())
        t0 = time.time()
        try:
            sol = s.solve()
        except Exception:  # noqa: BLE001
            return None
    if not sol or time.time() - t0 > 5:
        return None
    own = list(s._solver.assertions())
    count(summary, "run_c07_search_residue_checked")
    if len(own) == len(base):
        return None
    chk = z3.Solver()
    chk.set("timeout", 10000)
    chk.add(base)
    chk.add(z3.Not(z3.And(own)))
    if chk.check() == z3.sat:
        m = chk.model()
        lost = {n: (smrun.value_of(m, t._start), smrun.value_of(m, t._end)) for n, t in real.tasks.items()}
        extra = [str(a)[:120] for a in own[len(base):]][:3]
        return {"what": "after solve() the solver object still carries search bounds of the optimiser: a valid schedule of "
                        "the problem is excluded from every later call", "leftover_assertions": extra, "excluded_schedule": lost}
    return None


def worst_first_probe(script, real, rng, summary, tag):
    """the incremental optimiser against a truthful z3 that always answers with the worst admissible model: every exit
    of the loop (declared bound met, unsat after several improvements) is reached"""
    bounded = bounded_objective_variant(script, real, rng)
    for scr, how in ((script, "as generated"), (bounded, "with a declared, attainable bound")):
        if scr is None or not objectives_of(scr):
            continue
        adv = smrun.adversarial_incremental_solve(scr)
        if adv is None:
            continue
        count(summary, tag + "_worst_first_oracle")
        if adv.get("raised"):
            return {"what": f"incremental optimiser raised {adv['raised']} (worst-first oracle, {how})", "script": scr}
        if adv.get("result") and adv.get("better_status") == "sat" and not adv.get("time_stop"):
            return {"what": f"incremental optimiser stopped at value {adv['value']} although a valid schedule with value "
                            f"{adv['better_value']} exists and z3 had not answered unsat (z3 answering with the worst "
                            f"admissible model each time; {how})", "script": scr, "oracle_answers": adv.get("answers")}
        if adv.get("time_stop"):
            count(summary, tag + "_worst_first_left_on_time_budget_not_compared")
        if adv.get("result"):
            count(summary, f"{tag}_worst_first_iterations_{min(len(adv.get('answers', [])), 12)}")
    return None


def weighted_probe(script, real, rng, summary):
    """two objectives of one direction with weights that are not multiples of one another (2:3, 5:7, 3:4:5 ...): the
    weighted sum takes values that are not multiples of any weight, so an optimiser that steps by more than 1 jumps over
    the optimum; both optimisers, then a fresh z3 is asked for a strictly better valid schedule"""
    tasks = [d for d in script if d["op"] == "task" and not d.get("optional")]
    base = [d for d in script if d["op"] != "objective"]
    ws = rng.choice([(2, 3), (3, 2), (5, 7), (3, 5), (4, 6), (3, 4, 5), (2, 5), (0, 1), (1, 0), (2, 0, 3), (0, 2)])
    if len(tasks) < 2 or real.problem.horizon is None or rng.random() < 0.5:
        # a loose problem of its own (the generated one often leaves the weighted sum only a handful of values): 2-3
        # fixed-duration tasks sharing one worker on a generous horizon
        tasks = [{"op": "task", "name": f"L{i}", "kind": ("fixed", rng.randint(1, 4))} for i in range(len(ws))]
        base = [{"op": "problem", "name": "loose", "horizon": rng.randint(10, 16)}] + tasks + [{"op": "worker", "name": "LW"}] + \
               [{"op": "require", "task": t["name"], "res": ("worker", "LW")} for t in tasks]
        count(summary, "run_c07_weighted_sum_loose_problem")
    ni = sum(1 for d in base if d["op"] == "indicator")
    picked = rng.sample(tasks, min(len(ws), len(tasks)))
    kind = rng.choice(["minimizeIndicator", "maximizeIndicator"])
    scr = list(base)
    for k, t in enumerate(picked):
        scr.append({"op": "indicator", "i": ("expr", f"wsum{k}", ("+", (rng.choice(["tstart", "tend"]), t["name"]), k), None)})
    for k, _ in enumerate(picked):
        scr.append({"op": "objective", "o": (kind, ni + k, ws[k])})
    probe = pslib.Real()
    if any(r != "ok" for r in probe.run(scr)):
        return None
    t0 = time.time()
    a = smrun.run_real_solve(scr, {"optimizer": "incremental"})
    dt = time.time() - t0
    b = smrun.run_real_solve(scr, {"optimizer": "optimize", "optimize_priority": "weight"})
    count(summary, "run_c07_weighted_sum")
    for r, nm in ((a, "incremental"), (b, "optimize/weight")):
        if r.get("raised"):
            return {"what": f"{nm} optimiser raised {r['raised']} (weighted sum {ws})", "script": scr}
        if r.get("violated_assertions"):
            return {"what": f"{nm} optimiser returned an invalid schedule (weighted sum {ws})", "script": scr}
    if a.get("result") and dt < 3 and a.get("better_status") == "sat":
        return {"what": f"weighted sum {ws}: incremental optimiser returned value {a.get('value')} but a valid schedule "
                        f"with value {a.get('better_value')} exists", "script": scr, "runs": [a, b]}
    if b.get("result") and b.get("better_status") == "sat" and not f42_region(scr) and \
            builtin_suboptimal_is_stable(scr, {"optimizer": "optimize", "optimize_priority": "weight"}, summary, "run_c07_weighted"):
        return {"what": f"weighted sum {ws}: builtin optimiser returned value {b.get('value')} but a valid schedule with "
                        f"value {b.get('better_value')} exists", "script": scr, "runs": [a, b]}
    # z3 is free to answer with any admissible model: the same problem against the worst-first consistent oracle, which
    # walks down the values of the weighted sum one admissible step at a time
    adv = smrun.adversarial_incremental_solve(scr)
    if adv is not None:
        count(summary, "run_c07_weighted_sum_worst_first")
        if adv.get("raised"):
            return {"what": f"incremental optimiser raised {adv['raised']} (weighted sum {ws}, worst-first oracle)", "script": scr}
        if adv.get("result") and adv.get("better_status") == "sat" and not adv.get("time_stop"):
            return {"what": f"weighted sum {ws}: incremental optimiser stopped at value {adv['value']} although a valid "
                            f"schedule with value {adv['better_value']} exists (z3 answering with the worst admissible "
                            f"model each time)", "script": scr, "oracle_answers": adv.get("answers")}
    return None


def bounded_objective_variant(script, real, rng):
    """the script without its objectives, plus an indicator start(T)+1 with the true, attainable bounds (1, H-d+1) and a
    minimise / maximise objective over it (T a mandatory fixed-duration task)"""
    H = real.problem.horizon
    cands = [d for d in script if d["op"] == "task" and d["kind"][0] == "fixed" and not d.get("optional")]
    if H is None or not cands:
        return None
    t = rng.choice(cands)
    hi = H - t["kind"][1] + 1
    if hi < 2:
        return None
    base = [d for d in script if d["op"] != "objective"]
    ni = sum(1 for d in base if d["op"] == "indicator")
    return base + [{"op": "indicator", "i": ("expr", "bounded_start", ("+", ("tstart", t["name"]), 1), (1, hi))},
                   {"op": "objective", "o": (rng.choice(["minimizeIndicator", "maximizeIndicator"]), ni, 1)}]


# ---------------------------------------------------------------------------------- helpers
def timing_of(sol):
    return tuple((n, t.start, t.end, t.scheduled) for n, t in sol.tasks.items())


def model_timing(real, m):
    out = []
    for n, t in real.tasks.items():
        sched = True
        if t.optional:
            sched = z3.is_true(m.eval(t._scheduled, model_completion=True))
        out.append((n, m.eval(t._start, model_completion=True).as_long(), m.eval(t._end, model_completion=True).as_long(), sched))
    return tuple(out)


def differs_from(real, timing):
    lits = []
    for (n, s, e, sc) in timing:
        t = real.tasks[n]
        lits += [t._start != s, t._end != e]
        if t.optional:
            lits.append(t._scheduled != sc)
    return z3.Or(lits) if lits else z3.BoolVal(False)


def enumerate_timings(script, cap=600):
    real, base = smrun.fresh_assertions(script)
    s = z3.Solver()
    s.set("timeout", 20000)
    s.add(base)
    found = set()
    while len(found) < cap:
        r = s.check()
        if r != z3.sat:
            return found, str(r)
        tm = model_timing(real, s.model())
        found.add(tm)
        s.add(differs_from(real, tm))
    return found, "cap"


def valid_for(script, sol_model):
    _, base = smrun.fresh_assertions(script)
    return smrun.invalid_against(base, sol_model)


# ---------------------------------------------------------------------------------- C12
def views_disagree(sol):
    """a returned schedule lists every assignment twice — per task (`assigned_resources`) and per resource
    (`assignments`); the two views must tell the same story (C11_task_iff_resource_admitted), in every solution of an
    enumeration"""
    for tn, t in sol.tasks.items():
        for r in t.assigned_resources:
            if r not in sol.resources or not any(a[0] == tn for a in sol.resources[r].assignments):
                return f"task {tn} lists resource {r}, whose own assignments do not mention {tn}"
        if len(set(t.assigned_resources)) != len(t.assigned_resources):
            return f"task {tn} lists a resource twice: {t.assigned_resources}"
    for rn, r in sol.resources.items():
        for a in r.assignments:
            if a[0] not in sol.tasks or rn not in sol.tasks[a[0]].assigned_resources:
                return f"resource {rn} is assigned to task {a[0]}, which does not list it"
    return None


def run_c12(script, rng, summary):
    script = [d for d in script if d["op"] != "objective"]
    truth, status = enumerate_timings(script, cap=300)
    if status == "cap" or status == "unknown":
        count(summary, "run_c12_skipped_too_many")
        return None
    real = pslib.Real()
    real.run(script)
    count(summary, "run_c12")
    summary["nontrivial"].append("run" + str(hash(str(script))))
    seen = []
    returned = []
    cfg = {"debug": True} if rng.random() < 0.3 else {}
    count(summary, "run_c12_cfg:" + ("debug" if cfg else "default"))
    if rng.random() < 0.5 and real.problem.horizon is not None:
        # enumeration after an optimisation (possibly cut short): an objective restricts nothing, every valid timing
        # must still be visited
        bounded = bounded_objective_variant(script, real, rng) if rng.random() < 0.35 else None
        if bounded is not None:
            # an objective with declared, attainable (hence implied) bounds: the search may leave its loop on the bound
            script = bounded
            count(summary, "run_c12_after_optimisation_bounded_objective")
        else:
            script = script + [{"op": "objective", "o": rng.choice([("makespan",), ("flowtime", None), ("startLatest", None),
                                                                     ("startEarliest",), ("priorities",)])}]
        real = pslib.Real()
        if any(r != "ok" for r in real.run(script)):
            return None
        if rng.random() < (0.7 if bounded is None else 0.3):
            cfg["max_iter"] = rng.choice([1, 2, 2, 3])
        count(summary, "run_c12_after_optimisation" + ("_max_iter" if "max_iter" in cfg else ""))
    with smrun.silent(), no_stderr():
        s = ps.SchedulingSolver(problem=real.problem, max_time=10, **cfg)
        try:
            sol = s.solve()
            while sol and len(seen) <= len(truth) + 2:
                tm = timing_of(sol)
                if tm in seen:
                    return {"what": f"find_another_solution returned the same timing twice: {tm}", "returned": len(seen)}
                if tm not in truth:
                    return {"what": f"returned timing is not a valid schedule of the problem: {tm}"}
                seen.append(tm)
                # delayed requirements of optional tasks: an unscheduled task's busy interval can start at a
                # non-negative instant (recorded finding F19), where the two views differ on the unchanged tree
                bad = None if any(d["op"] == "require" and (d.get("delay_in") or d.get("early_out")) for d in script) \
                    else views_disagree(sol)
                if bad:
                    return {"what": f"solution number {len(seen)} of the enumeration: {bad}", "returned": len(seen)}
                returned.append((sol, sol.to_json()))
                sol = s.find_another_solution()
            for k, (obj, text) in enumerate(returned):
                if obj.to_json() != text:
                    return {"what": f"solution number {k + 1} of the enumeration changed after it was returned "
                                    f"(it is no longer the schedule that was handed out)", "returned": len(seen)}
        except Exception as e:  # noqa: BLE001
            return {"what": f"enumeration raised {type(e).__name__}: {e}", "returned": len(seen)}
    count(summary, f"run_c12_enumerated_{min(len(truth), 20)}")
    if len(seen) != len(truth):
        missing = [t for t in truth if t not in seen][:3]
        return {"what": f"enumeration returned {len(seen)} of {len(truth)} distinct valid timings", "missing": missing}
    # another value for a variable
    if truth and real.tasks:
        real2 = pslib.Real()
        real2.run(script)
        tn = rng.choice(list(real2.tasks))
        with smrun.silent():
            s2 = ps.SchedulingSolver(problem=real2.problem, max_time=10)
            sol = s2.solve()
            if sol:
                v0 = sol.tasks[tn].start
                sol2 = s2.find_another_solution_for_variable(real2.tasks[tn]._start)
                others = {dict((n, st) for n, st, _, _ in tm)[tn] for tm in truth} - {v0}
                if sol2 and sol2.tasks[tn].start == v0:
                    return {"what": f"find_another_solution_for_variable returned the same value {v0} for {tn}_start"}
                if sol2 and timing_of(sol2) not in truth:
                    return {"what": "find_another_solution_for_variable returned an invalid schedule"}
                if not sol2 and others:
                    return {"what": f"find_another_solution_for_variable failed although {tn}_start can be {sorted(others)[:3]}"}
    return None


# ---------------------------------------------------------------------------------- C13
def second_solver_after_extension(script, rng, summary):
    """a problem is solved, then extended (a new task on a worker that is already in use), then solved by a NEW solver
    object: the second solver must answer for the extended problem as a solver on a freshly built copy would"""
    real = pslib.Real()
    if any(r != "ok" for r in real.run(script)) or real.problem is None:
        return None
    used = [n for n, w in real.workers.items() if w._busy_intervals and "_CumulativeWorker_" not in n]
    if not used:
        return None
    w = rng.choice(used)
    first = rng.choice(["solve", "initialize", "export"])
    with smrun.silent(), no_stderr():
        try:
            s1 = ps.SchedulingSolver(problem=real.problem, max_time=3)
            if first == "solve":
                s1.solve()
            elif first == "initialize":
                s1.initialize()
            else:
                s1.export_to_smt2("/dev/null")
        except Exception:  # noqa: BLE001
            return None
    ext = [{"op": "task", "name": "Tlate", "kind": ("fixed", rng.choice([1, 2, 3])), "optional": False},
           {"op": "require", "task": "Tlate", "res": ("worker", w)}]
    if any(real.step(d) != "ok" for d in ext):
        return None
    script2 = [d for d in script if d["op"] != "objective"] + ext
    if any(d["op"] == "objective" for d in script):
        return None
    _, base2 = smrun.fresh_assertions(script2)
    if any(z3.is_quantifier(a) for a in base2):
        return None
    chk = z3.Solver(); chk.set("timeout", 10000); chk.add(base2)
    truth = str(chk.check())
    if truth == "unknown":
        return None
    count(summary, "run_c13_second_solver_after_extension")
    with smrun.silent(), no_stderr():
        try:
            s2 = ps.SchedulingSolver(problem=real.problem, max_time=5)
            sol2 = s2.solve()
        except Exception as e:  # noqa: BLE001
            return {"what": f"a second solver on the extended problem raised {type(e).__name__}: {e}", "extension": ext}
    if bool(sol2) != (truth == "sat"):
        return {"what": f"after {first}() on a first solver the problem got a new task on worker {w}; a second, new solver "
                        f"reports {'a schedule' if sol2 else 'no schedule'} while the extended problem is {truth}", "extension": ext}
    if sol2:
        bad = smrun.invalid_against(base2, s2._model)
        if bad:
            return {"what": f"after {first}() on a first solver the problem got a new task on worker {w}; the schedule a "
                            f"second, new solver returns violates the extended problem", "violated": bad[:3], "extension": ext}
    return None


def run_c13(script, rng, summary):
    if rng.random() < 0.45:
        v = second_solver_after_extension(script, rng, summary)
        if v:
            return v
    real0, base = smrun.fresh_assertions(script)
    chk = z3.Solver()
    chk.set("timeout", 15000)
    chk.add(base)
    feasible = str(chk.check())
    if feasible == "unknown":
        return None
    nobj = len(real0.problem.objectives)
    if nobj and real0.problem.horizon is None:
        # an objective on an unbounded problem keeps every solve() busy until max_time: not a quick-tier case
        count(summary, "run_c13_skipped_unbounded_objective")
        return None
    cfg = {"optimizer": rng.choice(["incremental", "optimize"])}
    if cfg["optimizer"] == "optimize":
        # pareto excluded by the property; with several objectives z3.Optimize's box mode also answers
        # `unsat` on every third check() of an unchanged problem (z3 behaviour, outside the repository)
        cfg["optimize_priority"] = rng.choice(["lex", "weight"] + (["box"] if nobj <= 1 else []))
    elif rng.random() < 0.4:
        # early stops of the incremental loop (every small iteration budget takes another exit of the loop)
        cfg["max_iter"] = rng.choice([1, 1, 2, 3])
    if cfg["optimizer"] == "optimize" and f42_region(script):
        # z3.Optimize on quantified buffer rules / nonlinear costs answers `unknown` or a non-optimal model (recorded
        # findings F42, F44 — z3's own disclaimer): the sequence is run with the incremental optimiser instead
        count(summary, f"run_c13_builtin_not_used_known_{f42_region(script)}_region")
        cfg = {"optimizer": "incremental"}
    multi_equiv = nobj > 1 and (cfg["optimizer"] == "incremental" or cfg.get("optimize_priority") == "weight")
    pool = ["solve", "solve", "solve", "findAnother", "findAnother", "export"] + ([] if multi_equiv else ["initialize"])
    ops = [rng.choice(pool) for _ in range(rng.randint(2, 5))]
    if rng.random() < 0.45:
        # ask for other schedules until the solver says there is none: that answer is checked too
        ops = ["solve"] + ["findAnother"] * rng.randint(3, 9)
        count(summary, "run_c13_enumeration_sequences")
    real = pslib.Real()
    real.run(script)
    count(summary, "run_c13")
    summary["nontrivial"].append("run" + str(hash(str((script, ops, cfg)))))
    blocked = []           # timings excluded by the caller so far
    have_model = False
    last = None
    init_own = None        # the solver's assertions after its first initialisation
    with smrun.silent():
        s = ps.SchedulingSolver(problem=real.problem, max_time=3, **cfg)
        for i, op in enumerate(ops):
            try:
                if op == "initialize":
                    s.initialize()
                    blocked = []
                    init_own = list(s._solver.assertions())
                    continue
                if op == "export":
                    s.export_to_smt2("/dev/null")
                    continue
                if op == "findAnother":
                    if not have_model:
                        continue
                    blocked.append(last)
                    sol = s.find_another_solution()
                else:
                    sol = s.solve()
            except Exception as e:  # noqa: BLE001
                return {"what": f"call {i} ({op}) of {ops} under {cfg} raised {type(e).__name__}: {e}"}
            # what should be satisfiable now
            c2 = z3.Solver()
            c2.set("timeout", 15000)
            c2.add(base)
            for tm in blocked:
                c2.add(differs_from(real0, tm))
            expect = str(c2.check())
            # the solver's own assertions must exclude nothing but what the caller asked to exclude
            own = list(s._solver.assertions())
            if init_own is None or op == "solve" and not blocked:
                init_own = init_own or own
            c4 = z3.Solver()
            c4.set("timeout", 15000)
            c4.add(init_own)
            for tm in blocked:
                c4.add(differs_from(real, tm))
            c4.add(z3.Not(z3.And(own)) if own else z3.BoolVal(False))
            if c4.check() == z3.sat:
                lost = model_timing(real, c4.model())
                return {"what": f"after call {i} ({op}) of {ops} under {cfg} the solver excludes a valid schedule the caller "
                                f"never asked to exclude", "lost_schedule": [list(x) for x in lost]}
            if sol:
                bad = valid_for(script, s._model)
                if bad:
                    return {"what": f"call {i} ({op}) of {ops} under {cfg} returned an invalid schedule", "violated": bad[:3]}
                last = timing_of(sol)
                if last in blocked:
                    return {"what": f"call {i} ({op}) of {ops} under {cfg} returned a schedule the caller had excluded"}
                have_model = True
            elif expect == "sat":
                return {"what": f"call {i} ({op}) of {ops} under {cfg} reported no solution although a valid schedule "
                                f"exists (problem feasible: {feasible}; {len(blocked)} schedules excluded by the caller)"}
    return None


# ---------------------------------------------------------------------------------- C15
CONFIGS = [
    {"optimizer": "optimize", "logics": "QF_LIA"}, {"optimizer": "optimize", "logics": "QF_UFLIA"},
    {}, {"optimizer": "optimize"}, {"optimizer": "optimize", "optimize_priority": "lex"},
    {"optimizer": "optimize", "optimize_priority": "box"}, {"optimizer": "optimize", "optimize_priority": "weight"},
    {"parallel": True}, {"random_values": True}, {"debug": True}, {"verbosity": 1},
    {"logics": "QF_LIA"}, {"logics": "QF_UFLIA"}, {"optimizer": "optimize", "debug": True},
    {"random_values": True, "optimizer": "optimize"},
    {"optimizer": "optimize", "logics": "QF_LIA"}, {"optimizer": "optimize", "optimize_priority": "lex", "logics": "QF_LIA"},
]


def in_lia_fragment(script):
    # buffers need arrays / quantified functions, polynomial costs and utilisation without horizon are non linear
    for d in script:
        if d["op"] == "buffer":
            return False
        if d["op"] == "worker" and d.get("cost", ("const", 0))[0] == "poly":
            return False
    return True


def run_c15(script, rng, summary):
    real0, base = smrun.fresh_assertions(script)
    nobj = len(real0.problem.objectives)
    cands = [c for c in CONFIGS if ("logics" not in c or in_lia_fragment(script))]
    if nobj >= 1 and f42_region(script):
        cands = [c for c in cands if c.get("optimizer", "incremental") == "incremental"]
        count(summary, f"run_c15_builtin_not_compared_known_{f42_region(script)}_region")
    if nobj > 1:
        # several objectives: only the weighted-sum readings are comparable
        cands = [c for c in cands if c.get("optimizer", "incremental") == "incremental" or c.get("optimize_priority") == "weight"]
    c1, c2 = rng.sample(cands, 2)
    outs = []
    count(summary, "run_c15")
    summary["nontrivial"].append("run" + str(hash(str((script, c1, c2)))))
    for cfg in (c1, c2):
        with no_stderr():
            r = smrun.run_real_solve(script, dict(cfg))
        z3.set_option("parallel.enable", False)
        outs.append(r)
        for k, v in cfg.items():
            count(summary, f"run_c15_cfg:{k}={v}")
        if r.get("raised"):
            return {"what": f"configuration {cfg} raised {r['raised']}"}
        if r.get("violated_assertions"):
            return {"what": f"configuration {cfg} returned an invalid schedule", "violated": r["violated_assertions"]}
    a, b = outs
    definite = lambda r: r.get("result") is True or (r.get("result") is False and r.get("base_status") == "unsat")
    if definite(a) and definite(b) and a["result"] != b["result"]:
        return {"what": f"configurations {c1} and {c2} disagree on feasibility", "runs": outs}
    if a.get("result") and b.get("result") and nobj >= 1 and smrun.objective_setup(real0, c1) is not None \
            and a.get("value") is not None and b.get("value") is not None \
            and a.get("better_status") == "unsat" == b.get("better_status") and a["value"] != b["value"]:
        return {"what": f"configurations {c1} and {c2} disagree on the optimum: {a['value']} vs {b['value']}", "runs": outs}
    for r, cfg in ((a, c1), (b, c2)):
        if r.get("result") and r.get("better_status") == "sat" and "max_iter" not in cfg and \
                (cfg.get("optimizer", "incremental") == "incremental" or
                 builtin_suboptimal_is_stable(script, cfg, summary, "run_c15")):
            return {"what": f"configuration {cfg} returned value {r.get('value')} but {r.get('better_value')} is achievable",
                    "runs": outs}
    v = toggle_sequence(script, real0, rng, summary)
    if v:
        return v
    if rng.random() < 0.5:
        return worst_first_probe(script, real0, rng, summary, "run_c15")
    return None


def toggle_sequence(script, real0, rng, summary):
    """see `toggle_sequence_once`; a difference in the optimum under the built-in optimiser is reported only when it
    shows again on each of four further runs of the same pair of configurations (z3.Optimize's answers vary from call to
    call: findings F44, F46)"""
    v = toggle_sequence_once(script, real0, rng, summary)
    if v and v.get("unstable_candidate"):
        for _ in range(4):
            again = toggle_sequence_once(script, real0, rng, summary, fixed=v["pair"])
            if not again:
                count(summary, "run_c15_toggle_sequence_builtin_optimum_differed_once_z3_unstable")
                return None
    return v


def toggle_sequence_once(script, real0, rng, summary, fixed=None):
    """an option that only changes how z3 searches (parallel, random_values, verbosity) must not change what a short
    sequence of public calls answers: solve() then find_another_solution() on the same solver object, with and
    without the option — same verdicts, valid schedules, same optimum of the first call"""
    if real0.problem.horizon is None and real0.problem.objectives:
        return None
    if len(real0.problem.objectives) > 1 or f42_region(script):
        return None
    base_cfg = rng.choice([{}, {}, {"optimizer": "optimize"}]) if real0.problem.objectives else {}
    toggles = [{"parallel": True}, {"parallel": True}, {"random_values": True}, {"verbosity": 1}]
    if in_lia_fragment(script):
        toggles += [{"logics": "QF_LIA"}, {"logics": "QF_UFLIA"}, {"logics": "QF_LIA"}]
    toggle = rng.choice(toggles)
    if fixed is not None:
        base_cfg, toggle = fixed
    outs = []
    for cfg in (dict(base_cfg), dict(base_cfg, **toggle)):
        real = pslib.Real()
        real.run(script)
        rec = {"cfg": cfg}
        with smrun.silent(), no_stderr():
            try:
                s = ps.SchedulingSolver(problem=real.problem, max_time=10, **cfg)
                t0 = time.time()
                sol = s.solve()
                rec["first"] = bool(sol)
                if not sol:
                    # "no solution found" is a verdict only when z3's answer was definite: under a logic that does
                    # not cover the problem (or on a timeout) z3 answers `unknown`, which the property excludes
                    try:
                        rec["reason_unknown"] = str(s._solver.reason_unknown() or "")
                    except Exception:  # noqa: BLE001
                        rec["reason_unknown"] = ""
                    if rec["reason_unknown"]:
                        rec["indefinite"] = True
                if sol:
                    setup = smrun.objective_setup(real, cfg, script)
                    if setup is not None:
                        rec["value"] = smrun.value_of(s._model, setup[0])
                    sol2 = s.find_another_solution()
                    rec["second"] = bool(sol2)
                    if sol2 and timing_of(sol2) == timing_of(sol):
                        rec["same_twice"] = True
                rec["wall"] = time.time() - t0
            except Exception as e:  # noqa: BLE001
                rec["raised"] = f"{type(e).__name__}: {e}"[:200]
        z3.set_option("parallel.enable", False)
        outs.append(rec)
    count(summary, "run_c15_toggle_sequence:" + ",".join(f"{k}" for k in toggle))
    a, b = outs
    if a.get("raised") or b.get("raised"):
        if bool(a.get("raised")) != bool(b.get("raised")):
            return {"what": f"solve(); find_another_solution() raises with {toggle} only" if b.get("raised") else
                            f"solve(); find_another_solution() raises without {toggle} only", "runs": outs}
        return None
    if max(a.get("wall", 99), b.get("wall", 99)) > 6:
        count(summary, "run_c15_toggle_sequence_not_compared_time_budget")
        return None
    if a.get("indefinite") or b.get("indefinite"):
        count(summary, "run_c15_toggle_sequence_not_compared_z3_answered_unknown")
        return None
    for k, what in (("first", "the verdict of solve()"), ("second", "whether find_another_solution() finds a schedule"),
                    ("value", "the optimum of solve()")):
        if k in a and k in b and a[k] != b[k]:
            v = {"what": f"{what} depends on the option {toggle}: {a[k]} without, {b[k]} with", "runs": outs}
            if k == "value" and base_cfg.get("optimizer") == "optimize":
                v["unstable_candidate"] = True
                v["pair"] = (dict(base_cfg), dict(toggle))
            return v
    return None


# ---------------------------------------------------------------------------------- C19
NAME_RE = re.compile(r"name='([^']*)'")


def owners_split(real, solver_assertions_by_constraint):
    pass


def run_c19(script, rng, summary):
    # make the problem infeasible through user constraints: two incompatible pins on one task
    real = pslib.Real()
    real.run(script)
    ts = list(real.tasks)
    if not ts:
        return None
    t = rng.choice([n for n in ts if not real.tasks[n].optional] or ts)
    extra = [{"op": "constraint", "c": ("startAt", t, 1), "name": "pin_a"},
             {"op": "constraint", "c": ("startAt", t, 2), "name": "pin_b"}]
    if rng.random() < 0.4 and len(ts) > 1:
        u = rng.choice([n for n in ts if n != t])
        if not real.tasks[t].optional and not real.tasks[u].optional:
            extra = [{"op": "constraint", "c": ("precedence", t, u, 0, "strict"), "name": "pin_a"},
                     {"op": "constraint", "c": ("precedence", u, t, 1, "lax"), "name": "pin_b"}]
    if rng.random() < 0.45:
        # a conflict that goes through a constraint made of several assertions
        H = real.problem.horizon or 20
        wn = "Wdiag"
        extra = [{"op": "worker", "name": wn}, {"op": "require", "task": t, "res": ("worker", wn)},
                 {"op": "constraint", "c": ("unavailable", wn, [(0, H // 2 + 1), (H // 2, H + 5), (H + 5, H + 9)]), "name": "pin_a"},
                 {"op": "constraint", "c": ("startAfter", t, 0, False), "name": "pin_b"}]
        if real.tasks[t].optional:
            extra.append({"op": "constraint", "c": ("forceSchedule", t, True), "name": "pin_c"})
    if rng.random() < 0.2 and not real.tasks[t].optional:
        # infeasible only through the (quantified) rules of a concurrent buffer: debug mode must not lose them
        extra = [{"op": "buffer", "name": "Bdiag", "concurrent": True, "initial": 0, "lb": 0},
                 {"op": "constraint", "c": ("unloadBuffer", t, "Bdiag", 2), "name": "pin_a"}]
        count(summary, "run_c19_concurrent_buffer_conflict")
    if rng.random() < 0.2:
        # a conflict between optional constraints that a force-apply rule makes mandatory: the applied optional
        # constraints are part of the explanation
        nc = len(real.problem.constraints)
        extra = [{"op": "constraint", "c": ("startAt", t, 1), "name": "pin_a", "optional": True},
                 {"op": "constraint", "c": ("startAt", t, 3), "name": "pin_b", "optional": True},
                 {"op": "constraint", "c": ("forceApplyN", [nc, nc + 1], 2, rng.choice(["exact", "min"])), "name": "pin_c"}]
        if real.tasks[t].optional:
            extra.append({"op": "constraint", "c": ("forceSchedule", t, True), "name": "pin_d"})
        count(summary, "run_c19_forced_optional_constraints_conflict")
    if rng.random() < 0.25:
        extra = []          # leave the problem as generated (usually feasible): verdict part
    # constraint names are the user's: they may coincide with names the encoding uses elsewhere (the scheduled flag of
    # an optional task; a name followed by an index) — the verdict and the diagnosis must not depend on them
    opt = [n for n in ts if real.tasks[n].optional]
    if opt and rng.random() < 0.15:
        o = rng.choice(opt)
        extra = [{"op": "constraint", "c": ("forceSchedule", o, False), "name": f"{o}_scheduled"}]
        count(summary, "run_c19_constraint_named_like_a_scheduled_flag")
    elif extra and rng.random() < 0.35:
        ren = {"pin_a": "Win", "pin_b": "Win_1", "pin_c": "Win_0", "pin_d": "Win_2"}
        if opt and rng.random() < 0.4:
            ren = {"pin_b": f"{rng.choice(opt)}_scheduled"}
        for d in extra:
            if d.get("name") in ren:
                d["name"] = ren[d["name"]]
        count(summary, "run_c19_colliding_constraint_names")
    script2 = [d for d in script if d["op"] != "objective"] + extra
    real = pslib.Real()
    res = real.run(script2)
    _, base = smrun.fresh_assertions(script2)
    chk = z3.Solver()
    chk.set("timeout", 15000)
    chk.add(base)
    truth = str(chk.check())
    count(summary, "run_c19_" + truth)
    summary["nontrivial"].append("run" + str(hash(str(script2))))
    buf = io.StringIO()
    with contextlib.redirect_stdout(buf), warnings.catch_warnings(), no_stderr():
        warnings.simplefilter("ignore")
        s = ps.SchedulingSolver(problem=real.problem, debug=True, max_time=10)
        try:
            sol = s.solve()
        except Exception as e:  # noqa: BLE001
            return {"what": f"debug-mode solve raised {type(e).__name__}: {e}", "script2": script2}
    out = buf.getvalue()
    if truth == "sat" and not sol:
        return {"what": "debug mode reports no solution on a satisfiable problem", "script2": script2}
    if truth == "unsat" and sol:
        return {"what": "debug mode returns a schedule for an unsatisfiable problem", "script2": script2}
    if truth == "sat" and sol:
        bad = valid_for(script2, s._model)
        if bad:
            return {"what": "debug mode returned an invalid schedule", "violated": bad[:3], "script2": script2}
        return None
    if truth != "unsat":
        return None
    # parse the diagnosis
    if "Unsatisfied constraints" not in out:
        return {"what": "no diagnosis printed for an infeasible problem in debug mode", "script2": script2}
    diag = out.split("Unsatisfied constraints", 1)[1]
    names = NAME_RE.findall(diag)
    names = [n for n in names if n in real.problem.constraints or True]
    listed = []
    for n in names:
        if n in real.problem.constraints:
            listed.append(n)
    # names printed inside the repr of a constraint also include task names etc.; keep those that are constraints,
    # but every "->" item must start with a constraint of the problem
    items = [x for x in diag.split("->")[1:]]
    for it in items:
        m = NAME_RE.search(it)
        if not m or m.group(1) not in real.problem.constraints:
            return {"what": f"the diagnosis lists something that is not a constraint of the problem: {it[:120]}",
                    "script2": script2}
    listed = [NAME_RE.search(it).group(1) for it in items]
    count(summary, f"run_c19_listed_{min(len(listed), 5)}")
    # basic rules + listed constraints must be unsatisfiable
    basic = []
    for task in real.problem.tasks.values():
        basic += task.get_z3_assertions() + [task._end <= real.problem._horizon]
    real_b, base_b = smrun.fresh_assertions([d for d in script2 if d["op"] != "constraint" or d["c"][0] in ("loadBuffer", "unloadBuffer")])
    c3 = z3.Solver()
    c3.set("timeout", 15000)
    c3.add(base_b)
    for n in listed:
        for a in real.problem.constraints[n].get_z3_assertions():
            c3.add(a)
    r3 = str(c3.check())
    if r3 == "sat":
        return {"what": f"the constraints listed as conflicting ({listed}) together with the basic rules admit a schedule",
                "script2": script2}
    return None


# ---------------------------------------------------------------------------------- C05
def run_c05(script, rng, summary, driver=None):
    """completeness search: enumerate schedules that satisfy the documented meaning (the Lean spec
    twins, as formulas over the primary variables) and pin each one in the real constraint system"""
    from harness import sem, props as P
    real = pslib.Real()
    real.run(script)
    driver.reset()
    for d in script:
        if pslib.to_line(d) is not None:
            driver.send(pslib.to_line(d))
    s = real.initialize()
    base = list(s._solver.assertions())
    _, lean_lines = driver.send_multi("(initialize (debug false))")
    _, spec_lines = driver.send_multi("(spec ALL)")
    sub = dict(P.subst_for(real))
    sub.update(z3walk.token_alignment([z3walk.sx(a) for a in base], [l.split("\t", 1)[1] for l in lean_lines]))
    b = sem.Builder(sem.sorts_of(base), sub)
    try:
        spec = [b.fml(sem.parse_sexp(l)) for l in spec_lines]
    except Exception as e:  # noqa: BLE001
        count(summary, "run_c05_spec_unbuildable")
        return None
    if any(z3.is_quantifier(a) for a in base):
        return None
    H = real.problem.horizon or 12
    spec_solver = z3.Solver()
    spec_solver.set("timeout", 10000)
    spec_solver.add(spec)
    tasks = list(real.tasks.values())
    for t in tasks:
        spec_solver.add(t._start >= -len(tasks) - 1, t._start <= H, t._end >= -len(tasks) - 1, t._end <= H)
        if t.optional:
            # documented meaning of "not scheduled": the task uses no resource - its busy intervals are empty and lie
            # before time 0 (so that negated / xor-ed resource constraints cannot be satisfied through a phantom interval)
            for res in t._required_resources:
                lo, up = res._busy_intervals[t]
                spec_solver.add(z3.Implies(z3.Not(t._scheduled), z3.And(lo == up, lo < 0)))
    count(summary, "run_c05")
    summary["nontrivial"].append("run" + str(hash(str(script))))
    checked = 0
    for _ in range(8 if rng.random() < 0.8 else 25):
        if spec_solver.check() != z3.sat:
            break
        m = spec_solver.model()
        pins, desc, block = [], {}, []
        for t in tasks:
            sched = True
            if t.optional:
                sched = z3.is_true(m.eval(t._scheduled, model_completion=True))
                pins.append(t._scheduled == sched)
                block.append(t._scheduled != sched)
            desc[t.name] = {"scheduled": sched}
            if sched:
                for v in [t._start, t._end] + ([t._duration] if hasattr(t, "_duration") else []):
                    val = m.eval(v, model_completion=True)
                    pins.append(v == val)
                    block.append(v != val)
                desc[t.name].update(start=m.eval(t._start, model_completion=True).as_long(),
                                    end=m.eval(t._end, model_completion=True).as_long())
        for sel in real.selects():
            for w, flag in sel._selection_dict.items():
                val = z3.is_true(m.eval(flag, model_completion=True))
                pins.append(flag == val)
                block.append(flag != val)
        for c in real.problem.constraints.values():
            if c.optional:
                val = z3.is_true(m.eval(c._applied, model_completion=True))
                pins.append(c._applied == val)
                block.append(c._applied != val)
        # dynamic busy intervals of scheduled tasks are part of the schedule
        for t in tasks:
            if desc[t.name]["scheduled"]:
                for res in t._required_resources:
                    lo, up = res._busy_intervals[t]
                    if "_maybe_busy_" not in lo.decl().name():
                        pins += [lo == m.eval(lo, model_completion=True), up == m.eval(up, model_completion=True)]
        hv = m.eval(real.problem._horizon, model_completion=True)
        pins.append(real.problem._horizon == hv)
        chk = z3.Solver()
        chk.set("timeout", 10000)
        chk.add(base)
        chk.add(pins)
        r = chk.check()
        checked += 1
        if r == z3.unsat:
            return {"what": "a schedule that satisfies the documented meaning of every element is rejected by the real "
                            "constraint system (pinning it is unsatisfiable)", "schedule": desc, "horizon": str(hv),
                    "n_pins": len(pins)}
        spec_solver.add(z3.Or(block) if block else z3.BoolVal(False))
    count(summary, f"run_c05_schedules_pinned_{min(checked, 25)}")
    return None


# ---------------------------------------------------------------------------------- C06
def mentions(x, name):
    if isinstance(x, str):
        return x == name
    if isinstance(x, (list, tuple)):
        return any(mentions(y, name) for y in x)
    return False


def delete_task(script, t):
    """the same construction script with task `t`, its requirements and every constraint / indicator that names it
    removed; constraint and selection ids of later declarations are re-mapped.  Returns (script', cmap, smap) or None
    if something cannot be deleted cleanly (objectives over all tasks, …)."""
    out = []
    cmap, smap = {}, {}
    nc = ns = 0          # ids in the original script
    nc2 = ns2 = 0        # ids in the new script

    def remap_refs(c):
        """rewrite ("ref", i) operands; None if one refers to a deleted constraint"""
        if isinstance(c, (list, tuple)):
            if len(c) == 2 and c[0] == "ref" and isinstance(c[1], int):
                return ("ref", cmap[c[1]]) if cmap.get(c[1]) is not None else None
            r = []
            for y in c:
                z = remap_refs(y)
                if z is None and y is not None:
                    return None
                r.append(z)
            return tuple(r) if isinstance(c, tuple) else r
        return c

    for d in script:
        op = d["op"]
        if op == "task":
            if d["name"] != t:
                out.append(d)
        elif op == "select":
            smap[ns] = ns2
            ns += 1
            ns2 += 1
            out.append(d)
        elif op == "require":
            res = d["res"]
            creates = res[0] == "cumul"
            if d["task"] == t:
                if creates:
                    smap[ns] = None
                    ns += 1
                continue
            d2 = dict(d)
            if res[0] == "select":
                if smap.get(res[1]) is None:
                    return None
                d2["res"] = ("select", smap[res[1]])
            if creates:
                smap[ns] = ns2
                ns += 1
                ns2 += 1
            out.append(d2)
        elif op == "constraint":
            c = d["c"]
            if c[0] in ("forceScheduleN", "unorderedGroup", "orderedGroup", "contiguous", "scheduleN") and t in c[1]:
                # a rule over a list of tasks: the deleted task leaves the list
                rest = [x for x in c[1] if x != t]
                if not rest or (c[0] == "forceScheduleN" and c[2] > len(rest) and c[3] != "max"):
                    return None
                c = (c[0], rest) + tuple(c[2:])
                d = dict(d, c=c)
            drop = mentions(c, t)
            if drop and c[0] in ("dependency", "conditionSchedule") and not (c[0] == "dependency" and c[1] == c[2]):
                # a rule that couples the scheduling of t with other tasks / conditions constrains them through t:
                # honouring it is not "t being inert"; such scripts are outside this search
                return None
            c2 = c
            if c[0] in ("not", "or", "and", "xor", "implies", "ifThenElse"):
                # a combination over a constraint of the deleted task has no counterpart in the smaller problem
                if drop:
                    return None
                c2 = remap_refs(c)
                if c2 is None:
                    return None
            if not drop and c[0] == "forceApplyN":
                ids = [cmap.get(i) for i in c[1]]
                if any(i is None for i in ids):
                    return None
                c2 = (c[0], ids, c[2], c[3])
            if not drop and c[0] in ("sameWorkers", "distinctWorkers"):
                if smap.get(c[1]) is None or smap.get(c[2]) is None:
                    drop = True
                else:
                    c2 = (c[0], smap[c[1]], smap[c[2]])
            if drop:
                cmap[nc] = None
                nc += 1
                continue
            cmap[nc] = nc2
            nc += 1
            nc2 += 1
            out.append(dict(d, c=c2))
        elif op in ("indicator", "objective"):
            return None          # indicators over "all tasks" change with the task list: not used in this search
        else:
            out.append(d)
    return out, cmap, smap


def task_pins(real_from, m, real_to, skip=(), smap=None, cmap=None):
    """pins on `real_to`'s variables reproducing model `m` of `real_from` for every task but `skip`"""
    pins = []
    for n, t in real_from.tasks.items():
        if n in skip or n not in real_to.tasks:
            continue
        u = real_to.tasks[n]
        sched = True
        if t.optional:
            sched = z3.is_true(m.eval(t._scheduled, model_completion=True))
            pins.append(u._scheduled == sched)
        if sched:
            pins += [u._start == m.eval(t._start, model_completion=True), u._end == m.eval(t._end, model_completion=True)]
            if hasattr(t, "_duration"):
                pins.append(u._duration == m.eval(t._duration, model_completion=True))
    pins.append(real_to.problem._horizon == m.eval(real_from.problem._horizon, model_completion=True))
    sf, st_ = real_from.selects(), real_to.selects()
    # the flags of a selection say something only where some task requires the selection (on the source side: a selection
    # left without a task — e.g. because its only task was deleted — has free, meaningless flags)
    used_from = {id(r) for t in real_from.tasks.values() for r in getattr(t, "_required_resources", [])}
    for i, sel in enumerate(sf):
        j = smap.get(i) if smap is not None else i
        if j is None or j >= len(st_):
            continue
        if not any(id(w) in used_from for w in sel.list_of_workers) or not selection_required(real_from, sel):
            continue
        byname = {w.name: f for w, f in st_[j]._selection_dict.items()}
        for w, flag in sel._selection_dict.items():
            if w.name in byname:
                pins.append(byname[w.name] == z3.is_true(m.eval(flag, model_completion=True)))
    cf, ct = list(real_from.problem.constraints.values()), list(real_to.problem.constraints.values())
    for i, c in enumerate(cf):
        j = cmap.get(i) if cmap is not None else i
        if j is None or j >= len(ct) or not c.optional:
            continue
        pins.append(ct[j]._applied == z3.is_true(m.eval(c._applied, model_completion=True)))
    return pins


def selection_required(real, sel):
    """is the count assertion of the selection among the assertions of some task of the problem?"""
    key = sel._selection_assertion.get_id()
    return any(a.get_id() == key for t in real.problem.tasks.values() for a in t._z3_assertions
               ) or any(key in _ids(a) for t in real.problem.tasks.values() for a in t._z3_assertions)


def _ids(e, depth=0):
    out = {e.get_id()}
    if depth < 6:
        for c in e.children():
            out |= _ids(c, depth + 1)
    return out


def block_tasks(real, m, skip=()):
    lits = []
    for n, t in real.tasks.items():
        if n in skip:
            continue
        lits += [t._start != m.eval(t._start, model_completion=True), t._end != m.eval(t._end, model_completion=True)]
        if t.optional:
            lits.append(t._scheduled != m.eval(t._scheduled, model_completion=True))
    return z3.Or(lits) if lits else z3.BoolVal(False)


def deletion_inside_theorem(driver, script, script2, t):
    """do the Lean models of the script and of the script without optional task t meet every hypothesis of
    `C06_deletion_sound` (State.dropTaskTheoremB, evaluated by the driver on this very pair)?"""
    if driver is None:
        return False
    try:
        driver.reset()
        for d in script:
            ln = pslib.to_line(d)
            if ln is not None:
                driver.send(ln)
        driver.send("(mark)")
        driver.reset()
        for d in script2:
            ln = pslib.to_line(d)
            if ln is not None:
                driver.send(ln)
        return driver.send_multi(f"(drop-task-theorem {pslib.q(t)})")[1] == ["true"]
    except Exception:  # noqa: BLE001
        return False


def run_c06(script, rng, summary, driver=None):
    v = _run_c06(script, rng, summary, driver)
    return v


def _run_c06(script, rng, summary, driver=None):
    real = pslib.Real()
    real.run(script)
    opts = [n for n, t in real.tasks.items() if t.optional]
    if not opts:
        count(summary, "run_c06_skipped_no_optional_task")
        return None
    t = rng.choice(opts)
    dl = delete_task(script, t)
    if dl is None:
        count(summary, "run_c06_skipped_not_deletable")
        return None
    script2, cmap, smap = dl
    real2 = pslib.Real()
    if any(r != "ok" for r in real2.run(script2)):
        count(summary, "run_c06_skipped_deletion_rejected")
        return None
    A = list(real.initialize()._solver.assertions())
    B = list(real2.initialize()._solver.assertions())
    if any(z3.is_quantifier(a) for a in A + B):
        return None
    count(summary, "run_c06")
    summary["nontrivial"].append("run" + str(hash(str((script, t)))))
    if deletion_inside_theorem(driver, script, script2, t):
        # the Lean theorem applies to this pair of models: a schedule leaving t unscheduled is valid for the one iff it is
        # valid for the other
        count(summary, "run_c06_deletions_inside_C06_deletion_sound")
    unsched = real.tasks[t]._scheduled == False  # noqa: E712
    # do the optional-task rules themselves allow leaving t unscheduled?
    rules = z3.Solver(); rules.set("timeout", 10000)
    for task in real.problem.tasks.values():
        rules.add(task.get_z3_assertions())
    for c in real.problem.constraints.values():
        if type(c).__name__ in ("OptionalTaskForceSchedule", "OptionalTaskConditionSchedule", "OptionalTasksDependency",
                                "ForceScheduleNOptionalTasks") and not c._created_from_assertion:
            rules.add(c.get_z3_assertions())
    rules.add(unsched)
    if rules.check() != z3.sat:
        count(summary, "run_c06_skipped_rules_forbid_unscheduling")
        return None
    inv = {v: k for k, v in smap.items() if v is not None}
    cinv = {v: k for k, v in cmap.items() if v is not None}
    # (1) every schedule of S with t unscheduled is a schedule of S \ t
    sa = z3.Solver(); sa.set("timeout", 10000); sa.add(A); sa.add(unsched)
    n1 = 0
    for _ in range(6):
        if sa.check() != z3.sat:
            break
        m = sa.model()
        chk = z3.Solver(); chk.set("timeout", 10000); chk.add(B)
        chk.add(task_pins(real, m, real2, skip=(t,), smap=smap, cmap=cmap))
        n1 += 1
        if chk.check() == z3.unsat:
            return {"what": f"with optional task {t} left unscheduled the problem admits a schedule of the other tasks that the "
                            f"problem without {t} rejects", "deleted_task": t, "script_without_task": script2}
        sa.add(block_tasks(real, m, skip=(t,)))
    # (2) every schedule of S \ t extends to a schedule of S with t unscheduled
    sb = z3.Solver(); sb.set("timeout", 10000); sb.add(B)
    n2 = 0
    for _ in range(6):
        if sb.check() != z3.sat:
            break
        m = sb.model()
        chk = z3.Solver(); chk.set("timeout", 10000); chk.add(A); chk.add(unsched)
        chk.add(task_pins(real2, m, real, smap=inv, cmap=cinv))
        n2 += 1
        if chk.check() == z3.unsat:
            return {"what": f"a schedule of the problem without optional task {t} is lost when {t} is declared and left "
                            f"unscheduled (the unscheduled task is not inert)", "deleted_task": t, "script_without_task": script2}
        sb.add(block_tasks(real2, m))
    count(summary, f"run_c06_pinned_{n1}+{n2}")
    return None
