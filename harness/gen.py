"""Random construction scripts.  Generation is interactive with the real library (so that ids of
selections / constraints reflect what actually got registered); every random choice comes from
one `random.Random(seed)`.  A profile names which element kinds are drawn and how often."""
import random

from harness import pslib

PROFILES = {
    # element kind -> weight
    "core": {"task": 5, "worker": 2, "cumulative": 1, "select": 2, "require": 6},
    "taskc": {"task": 4, "worker": 1, "require": 2, "taskc": 8},
    "fol": {"task": 3, "taskc": 5, "fol": 6, "optc": 3},
    "resc": {"task": 4, "worker": 2, "cumulative": 1, "select": 2, "require": 7, "resc": 6},
    "buffer": {"task": 5, "buffer": 2, "bufc": 6, "taskc": 2},
    # resources together with task constraints and connectives over them (what a connective leaves unenforced must not
    # switch off a resource rule)
    "resfol": {"task": 3, "worker": 1, "cumulative": 1, "require": 6, "taskc": 5, "fol": 4},
    "ind": {"task": 5, "worker": 2, "cumulative": 1, "select": 1, "require": 6, "buffer": 1, "bufc": 2, "ind": 7,
            "indc": 2},
    "obj": {"task": 5, "worker": 2, "require": 5, "taskc": 3, "ind": 3, "obj": 5, "buffer": 1, "bufc": 2},
    # only elements whose documented meaning has a complete spec twin, used inside the fragment where the
    # encoding is known to be complete (see DESIGN.md, C05): the completeness search enumerates spec-valid
    # schedules and pins each one in the real solver
    "frag": {"task": 5, "worker": 2, "cumulative": 1, "select": 2, "require": 6, "fragc": 7, "fol": 2, "optc": 1},
    # focused profiles: a small, loosely constrained problem (2-4 tasks without release / due dates, generous horizon,
    # every task assigned to one of 1-2 workers) and then 1-3 constraints of ONE family, so that the solver keeps the
    # freedom a constraint is supposed to take away — the SEM / witness searches find nothing on an over-constrained problem
    "focus_resc": {"resc": 1},
    "focus_taskc": {"taskc": 1},
    "focus_fol": {"fol": 3, "optc": 1},
    "focus_ind": {"ind": 4, "indc": 1},
    "focus_obj": {"obj": 3, "ind": 1},
    # several indicators / objectives declared back to back on a small problem with a finite horizon, all objectives in
    # one direction (mixed directions are outside what the weighted combination defines): the multi-objective paths
    "focus_multiobj": {"obj": 3, "ind": 2},
    "all": {"ind": 2, "indc": 1, "task": 5, "worker": 2, "cumulative": 1, "select": 2, "require": 6, "taskc": 5, "fol": 3,
            "optc": 1, "resc": 4, "buffer": 1, "bufc": 3},
}


class Gen:
    def __init__(self, rng, profile="core", size=12, horizon_p=0.7, invalid_p=0.03, thorough=False, simple=False,
                 keep_sat=True):
        self.rng = rng
        self.w = PROFILES[profile]
        self.size = size
        self.invalid_p = invalid_p
        self.thorough = thorough
        self.simple = simple
        self.frag = profile == "frag"
        if self.frag:
            horizon_p, self.invalid_p = 1.0, 0.0
        if simple:
            horizon_p, self.invalid_p = 1.0, 0.0
        self.real = pslib.Real()
        self.script = []
        self.horizon = rng.choice([6, 7, 10, 13, 20, 30] + ([50, 100, 200] if thorough and not simple else [])) \
            if rng.random() < horizon_p else None
        if simple or self.frag:
            self.horizon = rng.choice([6, 8, 10, 12])
        self.nt = self.nw = self.nc = self.nb = 0
        self.kinds = {}      # distribution of declaration kinds (for evidence)
        self.keep_sat = keep_sat
        self.feasible = True
        self.operands_used = set()
        self.cinfo = {}      # constraint id -> (class, optional) of the accepted constraint declarations
        self.focus = profile.startswith("focus_")
        if self.focus:
            self.invalid_p = 0.0
            self.horizon = rng.choice([12, 16, 20, 25, 30, 40, None])
        self.direction = None
        if profile == "focus_multiobj":
            self.horizon = rng.choice([8, 10, 12, 16, 20])
            self.direction = rng.choice(["max", "min"])

    # ------------------------------------------------------------------ helpers
    def keeps_satisfiable(self, d):
        """would the problem still admit a schedule with `d` added?  Decided on a scratch rebuild of the script with
        the real library and z3 (1 s budget; unknown counts as yes); the active problem is restored afterwards"""
        import z3
        import processscheduler.base
        try:
            trial = pslib.Real()
            res = trial.run([x for x in self.script if x["op"] != "solver"] + [d])
            if res[-1] != "ok" or trial.problem is None:
                return True                  # rejected declarations belong to the ill-formed stream
            s = trial.initialize()
            chk = z3.Solver()
            chk.set("timeout", 1000)
            chk.add(s._solver.assertions())
            return chk.check() != z3.unsat
        except Exception:  # noqa: BLE001
            return True
        finally:
            processscheduler.base.active_problem = self.real.problem

    def emit(self, d):
        if self.keep_sat and self.feasible and d["op"] not in ("problem", "worker", "cumulative", "select", "solver",
                                                              "indicator", "objective"):
            if not self.keeps_satisfiable(d):
                if self.rng.random() < 0.9:
                    self.kinds["skipped_would_be_infeasible"] = self.kinds.get("skipped_would_be_infeasible", 0) + 1
                    return "skipped"
                self.feasible = False        # a tenth of the conflicts is kept: infeasible problems are inputs too
                self.kinds["infeasible_scripts"] = self.kinds.get("infeasible_scripts", 0) + 1
        n0 = len(self.real.problem.constraints) if self.real.problem is not None else 0
        r = self.real.step(d)
        self.real.results.append(r)
        self.script.append(d)
        if d["op"] == "constraint" and self.real.problem is not None and len(self.real.problem.constraints) == n0 + 1:
            self.cinfo[n0] = (d["c"][0], bool(d.get("optional")))
        k = d["op"] if d["op"] != "constraint" else "c:" + d["c"][0]
        self.kinds[k] = self.kinds.get(k, 0) + 1
        if r != "ok":
            self.kinds["error:" + r] = self.kinds.get("error:" + r, 0) + 1
        return r

    def H(self):
        return self.horizon or 20

    def ival(self):
        h = self.H()
        return self.rng.choice([0, 1, 2, 3, h // 2, h - 1, h, h + 1, self.rng.randint(0, h)])

    def interval(self):
        h = self.H()
        lo = self.rng.randint(0, h - 1)
        return (lo, self.rng.randint(lo + 1, h))

    def interval_list(self, lo_n=1, hi_n=3):
        """1..3 intervals; a quarter of the lists are chains of touching intervals (a,b),(b,c): the shared instant is
        where `<` / `<=` slips and zero-length items show"""
        rng = self.rng
        n = rng.randint(lo_n, hi_n)
        if n >= 2 and rng.random() < 0.4:
            h = self.H()
            cuts = sorted(rng.sample(range(0, h + 1), min(n + 1, h + 1)))
            chain = list(zip(cuts, cuts[1:]))
            if rng.random() < 0.3:
                rng.shuffle(chain)
            return chain
        return [self.interval() for _ in range(n)]

    def intervals_for_count(self):
        """1..4 intervals, in any order; a third of the lists contain nested / overlapping non-neighbouring entries"""
        rng = self.rng
        ivs = self.interval_list(1, 3)
        if rng.random() < 0.3:
            lo, hi = self.interval()
            inner = (lo, hi) if hi - lo < 2 else (lo + 1, hi)
            far = (min(self.H(), hi + 2), min(self.H(), hi + 2) + 2)
            ivs = [(lo, hi), far, inner] if rng.random() < 0.5 else [inner, far, (lo, hi)] + ivs[:1]
        return ivs

    def tasks(self):
        return list(self.real.tasks)

    def some_tasks(self, lo=2, hi=4):
        ts = self.tasks()
        if len(ts) < lo:
            return None
        k = self.rng.randint(lo, min(hi, len(ts)))
        return self.rng.sample(ts, k)

    def plain_workers(self):
        return [n for n in self.real.workers if "_CumulativeWorker_" not in n]

    def nselects(self):
        return len(self.real.selects())

    def nconstraints(self):
        return len(self.real.problem.constraints)

    def count_kind(self):
        return self.rng.choice(["exact", "min", "max"])

    # ------------------------------------------------------------------ element generators
    def g_task(self):
        rng = self.rng
        self.nt += 1
        name = f"T{self.nt}"
        k = rng.random()
        if k < 0.5:
            kind = ("fixed", rng.choice([1, 1, 2, 3, 4, 5]))
        elif k < 0.65:
            kind = ("zero",)
        else:
            mn = rng.choice([0, 0, 1, 2])
            mx = rng.choice([None, None, mn + 1, mn + 3, 6])
            al = rng.choice([None, None, None, [1, 2], [2, 3, 5], [mn + 1]])
            kind = ("var", mn, mx, al)
        d = {"op": "task", "name": name, "kind": kind, "optional": rng.random() < 0.35}
        if self.focus:
            # loose tasks: long or unbounded variable durations, no release / due date
            if rng.random() < 0.55:
                mn = rng.choice([0, 1, 2, 3])
                d["kind"] = ("var", mn, rng.choice([None, None, mn + 4, mn + 9, 15]), None)
            d["optional"] = rng.random() < 0.2
            if self.w is PROFILES.get("focus_ind") or self.w is PROFILES.get("focus_obj") or self.direction is not None:
                # due-date indicators need due dates: soft ones, so that a task may really be late, weights incl. 0
                if rng.random() < 0.45:
                    d["due"] = rng.choice([0, 1, 3, 5, 8])
                    d["deadline"] = False
                    d["prio"] = rng.choice([0, 0, 1, 2, 5])
            return self.emit(d)
        if rng.random() < 0.3:
            d["release"] = rng.choice([0, 1, 2, 3, 5])
        if rng.random() < 0.35:
            d["due"] = rng.choice([3, 5, 8, self.H(), self.H() + 2, 0, 1])
            d["deadline"] = rng.random() < 0.6
        if rng.random() < 0.3:
            d["work"] = rng.choice([0, 1, 3, 6, 10, 5, 7])
        if rng.random() < 0.4:
            d["prio"] = rng.choice([0, 1, 2, 5])
        if d.get("due") is not None and not d.get("deadline") and rng.random() < 0.5:
            d["prio"] = rng.choice([0, 0, 1, 3])      # weightless late tasks
        if rng.random() < self.invalid_p:
            d = dict(d, **rng.choice([{"kind": ("fixed", 0)}, {"work": -1}, {"prio": -1}, {"kind": ("var", -1, None, None)},
                                      {"name": rng.choice(self.tasks() or [name])}]))
        self.emit(d)

    @staticmethod
    def wname(k):
        """W1, W10, W2, W20, ...: every second name extends the previous one (names that are prefixes of one another)"""
        return f"W{(k + 1) // 2}" + ("0" if k % 2 == 0 else "")

    def g_worker(self):
        rng = self.rng
        self.nw += 1
        cost = rng.choice([("const", 0), ("const", 0), ("const", 1), ("const", 5), ("linear", 2, 3), ("linear", 0, 4)] +
                          ([] if self.simple else [("poly", [1, 0, 2])]))
        self.emit({"op": "worker", "name": self.wname(self.nw), "prod": rng.choice([1, 1, 1, 0, 2, 3, 2, 4, 6]), "cost": cost})

    def g_cumulative(self):
        rng = self.rng
        self.nc += 1
        size = rng.choice([2, 2, 3] + ([4, 5] if self.thorough else []))
        if rng.random() < 0.08:
            size = rng.choice([10, 11])       # unit names with a two-digit index
        if rng.random() < self.invalid_p:
            size = rng.choice([0, 1])
        self.emit({"op": "cumulative", "name": f"CW{self.nc}", "size": size, "prod": rng.choice([1, 2, 3, 7]),
                   "cost": ("const", rng.choice([0, 0, 1, 5, 7]))})

    def g_select(self):
        rng = self.rng
        ws = self.plain_workers()
        if len(ws) < 2:
            return self.g_worker()
        k = rng.randint(2, min(len(ws), 4 if not self.thorough else 5))
        lst = rng.sample(ws, k)
        prev = [[w.name for w in s_.list_of_workers] for s_ in self.real.selects()
                if all(w.name in ws for w in s_.list_of_workers)]
        if prev and rng.random() < 0.45:
            # overlap with an earlier selection (Same / DistinctWorkers only speak about common workers)
            base = rng.choice(prev)
            keep = rng.sample(base, rng.randint(1, len(base)))
            lst = list(dict.fromkeys(keep + lst))[:max(2, k)]
            k = len(lst)
        if self.real.cumuls and rng.random() < 0.1 and not self.frag and not self.simple:
            # a cumulative worker listed in a selection (only the creation is inside the model: such a selection is
            # never required afterwards, see finding F40)
            lst[rng.randrange(k)] = rng.choice(list(self.real.cumuls))
        n = rng.randint(1, k)
        if rng.random() < self.invalid_p:
            n = rng.choice([0, k + 1])
        self.emit({"op": "select", "workers": lst, "n": n, "kind": self.count_kind()})

    def shared_selection(self):
        """one selection object required by two (or three) tasks — they share its choice of workers and its count —,
        preferably one that asks for two workers or more"""
        rng = self.rng
        ts = self.tasks()
        sels = []
        for i, sel in enumerate(self.real.selects()):
            names = {w.name for w in sel.list_of_workers}
            if any("_CumulativeWorker_" in n or n in self.real.cumuls for n in names):
                continue
            free = [t for t in ts if not (names & {x.name for x in self.real.tasks[t]._required_resources})
                    and sel not in self.real.tasks[t]._required_resources]
            if len(free) >= 2:
                sels.append((i, sel, free))
        if not sels:
            return False
        big = [x for x in sels if x[1].nb_workers_to_select >= 2]
        i, sel, free = rng.choice(big) if big and rng.random() < 0.7 else rng.choice(sels)
        for t in rng.sample(free, min(len(free), rng.choice([2, 2, 3]))):
            self.emit({"op": "require", "task": t, "res": ("select", i)})
        return True

    def shared_pair(self):
        """two tasks that share a plainly required worker (busy for part of the task only, half of the time) and also
        meet on another resource through a selection or a cumulative worker"""
        rng = self.rng
        ts = self.tasks()
        ws = self.plain_workers()
        if len(ts) < 2 or not ws:
            return False
        t1, t2 = rng.sample(ts, 2)
        w = rng.choice(ws)
        for t in (t1, t2):
            if w not in {x.name for x in self.real.tasks[t]._required_resources}:
                d = {"op": "require", "task": t, "res": ("worker", w)}
                kind = next((x["kind"] for x in self.script if x["op"] == "task" and x["name"] == t), ("zero",))
                room = kind[1] if kind[0] in ("fixed", "var") else 0
                if room and rng.random() < 0.5:
                    if rng.random() < 0.5:
                        d["delay_in"], d["early_out"] = room, 0
                    else:
                        d["delay_in"], d["early_out"] = 0, room
                elif rng.random() < 0.3:
                    d["dynamic"] = True
                self.emit(d)
        other = []
        for i, sel in enumerate(self.real.selects()):
            names = {x.name for x in sel.list_of_workers}
            if w not in names and not any("_CumulativeWorker_" in n or n in self.real.cumuls for n in names):
                other.append(("select", i))
        other += [("cumul", c) for c in self.real.cumuls]
        if not other:
            self.g_cumulative() if rng.random() < 0.5 else self.g_select()
            return True
        res = rng.choice(other)
        for t in (t1, t2):
            already = {x.name for x in self.real.tasks[t]._required_resources}
            if res[0] == "cumul":
                clash = {x.name for x in self.real.cumuls[res[1]]._cumulative_workers} & already
            else:
                clash = {x.name for x in self.real.selects()[res[1]].list_of_workers} & already
            if not clash:
                self.emit({"op": "require", "task": t, "res": res})
        return True

    def g_require(self):
        rng = self.rng
        ts = self.tasks()
        if not ts:
            return self.g_task()
        if rng.random() < 0.12 and not self.frag and self.shared_pair():
            return
        if rng.random() < 0.08 and self.shared_selection():
            return
        t = rng.choice(ts)
        already = {w.name for w in self.real.tasks[t]._required_resources}
        choices = []
        for w in self.plain_workers():
            if w not in already:
                choices.append(("worker", w))
        for i, s in enumerate(self.real.selects()):
            names = {w.name for w in s.list_of_workers}
            if not (names & already) and not any(n for n in names if "_CumulativeWorker_" in n or n in self.real.cumuls):
                choices.append(("select", i))
        for c, cw in self.real.cumuls.items():
            if not ({w.name for w in cw._cumulative_workers} & already):
                choices.append(("cumul", c))
        if not choices:
            return self.g_worker()
        res = rng.choice(choices)
        d = {"op": "require", "task": t, "res": res}
        if res[0] == "worker" and not (self.frag and self.real.tasks[t].optional):
            m = rng.random()
            if m < 0.2:
                d["dynamic"] = True
            elif m < 0.45:
                # DelaysFit: delay_in + early_out <= duration (the declared span must not be negative)
                kind = next((x["kind"] for x in self.script if x["op"] == "task" and x["name"] == t), ("zero",))
                room = kind[1] if kind[0] == "fixed" else (kind[1] if kind[0] == "var" else 0)
                di = rng.choice([0, 1, 1, 2])
                eo = rng.choice([0, 0, 1, 2])
                if di + eo <= room:
                    d["delay_in"], d["early_out"] = di, eo
        self.emit(d)

    def g_taskc(self, optional=None, name=None):
        rng = self.rng
        ts = self.tasks()
        if len(ts) < 1:
            return self.g_task()
        t = rng.choice(ts)
        t2 = rng.choice(ts)
        # two-task constraints often relate tasks that compete for a worker
        mates = [n for n in ts if n != t and {id(w) for w in self.real.tasks[n]._required_resources} &
                 {id(w) for w in self.real.tasks[t]._required_resources}]
        if mates and rng.random() < 0.5:
            t2 = rng.choice(mates)
        opts = [n for n in ts if self.real.tasks[n].optional]
        forms = [
            lambda: ("startAt", t, self.ival()),
            lambda: ("startAfter", t, self.ival(), rng.random() < 0.5),
            lambda: ("endAt", t, self.ival()),
            lambda: ("endBefore", t, self.ival(), rng.random() < 0.5),
            lambda: ("precedence", t, t2, rng.choice([0, 0, 1, 2, 5]), rng.choice(["lax", "strict", "tight"])),
            lambda: ("startSynced", t, t2),
            lambda: ("endSynced", t, t2),
            lambda: ("dontOverlap", t, t2),
        ]
        multi = self.some_tasks(2, 4)
        if multi:
            win = rng.choice([None, self.interval(), (0, self.H())])
            # a group of one task is still a group: its window / length bounds that task
            grp = multi[:1] if rng.random() < 0.15 else multi
            forms += [
                lambda: ("contiguous", multi),
                lambda: ("unorderedGroup", grp, win, rng.choice([0, 3, 6, self.H()])),
                lambda: ("orderedGroup", grp, win, rng.choice([0, 4, 8, self.H()]), rng.choice(["lax", "strict", "tight"])),
                lambda: ("scheduleN", multi, rng.randint(0, len(multi)), self.intervals_for_count(), self.count_kind()),
            ]
        if opts:
            o = rng.choice(opts)
            forms += [
                lambda: ("forceSchedule", o, rng.random() < 0.5),
                lambda: ("conditionSchedule", o, self.raw_fml()),
                lambda: ("dependency", t, o),
                lambda: ("forceScheduleN", rng.sample(opts, rng.randint(1, len(opts))), rng.randint(1, len(opts)),
                         self.count_kind()),
            ]
        elif rng.random() < self.invalid_p * 3:
            forms += [lambda: ("forceSchedule", t, True), lambda: ("dependency", t2, t)]
        c = rng.choice(forms)()
        d = {"op": "constraint", "c": c}
        if optional if optional is not None else rng.random() < 0.15:
            d["optional"] = True
        if name:
            d["name"] = name
        before = self.nconstraints()
        r = self.emit(d)
        if c[0] == "precedence" and t2 in mates and not d.get("optional") and self.nconstraints() == before + 1 \
                and not self.frag and rng.random() < 0.4:
            # a precedence between two tasks that compete for a worker, used only as operand of a connective: it is not
            # enforced, so nothing but the worker keeps the two tasks apart
            me = ("ref", before)
            self.operands_used.add(before)
            k2 = rng.choice(["or", "not", "implies", "xor"])
            c2 = {"or": lambda: ("or", [me, ("raw", self.raw_fml())]), "not": lambda: ("not", me),
                  "implies": lambda: ("implies", self.cond(), [me]), "xor": lambda: ("xor", me, ("raw", self.raw_fml()))}[k2]()
            self.emit({"op": "constraint", "c": c2})
        return r

    def g_fragc(self, optional=None):
        rng = self.rng
        ts = self.tasks()
        if not ts:
            return self.g_task()
        t, t2 = rng.choice(ts), rng.choice(ts)
        opts = [n for n in ts if self.real.tasks[n].optional]
        forms = [
            lambda: ("startAt", t, self.ival()), lambda: ("startAfter", t, self.ival(), rng.random() < 0.5),
            lambda: ("endAt", t, self.ival()), lambda: ("endBefore", t, self.ival(), rng.random() < 0.5),
            lambda: ("precedence", t, t2, rng.choice([0, 0, 1, 2]), rng.choice(["lax", "strict", "tight"])),
            lambda: ("startSynced", t, t2), lambda: ("endSynced", t, t2),
        ]
        multi = self.some_tasks(2, 3)
        if multi and not any(self.real.tasks[n].optional for n in multi):
            # groups are not guarded by the scheduled flag (finding F18): mandatory members only
            forms += [lambda: ("unorderedGroup", multi, self.interval(), 0),
                      lambda: ("orderedGroup", multi, (0, self.H()), 0, rng.choice(["lax", "strict", "tight"]))]
        if opts:
            o = rng.choice(opts)
            forms += [lambda: ("forceSchedule", o, rng.random() < 0.5), lambda: ("dependency", t, o),
                      lambda: ("forceScheduleN", rng.sample(opts, rng.randint(1, len(opts))), 1, self.count_kind())]
        res = self.assigned_resources()
        if res:
            r = rng.choice(res)
            forms += [lambda: ("unavailable", r, self.interval_list(1, 2))] * 2
        ns = self.nselects()
        if ns >= 2:
            forms += [lambda: ("sameWorkers", rng.randrange(ns), rng.randrange(ns))]
        d = {"op": "constraint", "c": rng.choice(forms)()}
        if optional if optional is not None else rng.random() < 0.15:
            d["optional"] = True
        return self.emit(d)

    def raw_term(self, depth=0):
        rng = self.rng
        ts = self.tasks()
        if self.frag:
            # a user expression is enforced as written; over the variables of an unscheduled optional task it
            # speaks about the parking instant, which is not part of a user-level schedule
            ts = [n for n in ts if not self.real.tasks[n].optional]
        leaf = [lambda: rng.randint(0, 9)]
        if ts:
            leaf += [lambda: ("tstart", rng.choice(ts)), lambda: ("tend", rng.choice(ts))]
        if depth > 1 or rng.random() < 0.6:
            return rng.choice(leaf)()
        op = rng.choice(["+", "-", "*"])
        if op == "*":
            return ("*", rng.randint(1, 3), self.raw_term(depth + 1))
        return (op, self.raw_term(depth + 1), self.raw_term(depth + 1))

    def raw_fml(self, depth=0):
        rng = self.rng
        if depth < 1 and rng.random() < 0.25:
            return (rng.choice(["and", "or"]), self.raw_fml(depth + 1), self.raw_fml(depth + 1))
        if depth < 1 and rng.random() < 0.1:
            return ("not", self.raw_fml(depth + 1))
        return (rng.choice(["<=", "<", ">=", ">", "=", "!="]), self.raw_term(), self.raw_term())

    def cond(self):
        """condition of Implies / IfThenElse: sometimes a constant (a plain Python bool, e.g. a configuration flag)"""
        r = self.rng.random()
        return True if r < 0.06 else (False if r < 0.12 else self.raw_fml())

    def operand(self):
        rng = self.rng
        n = self.nconstraints()
        if n and rng.random() < 0.7:
            # prefer constraints no connective has taken yet: "an operand is not enforced on its own" can only be
            # observed on a constraint that would otherwise be enforced
            fresh = [i for i in range(n) if i not in self.operands_used]
            # nesting: a fresh connective (an optional one first) as operand of the next connective
            conn = [i for i in fresh if self.cinfo.get(i, ("", False))[0] in
                    ("not", "or", "and", "xor", "implies", "ifThenElse")]
            optconn = [i for i in conn if self.cinfo[i][1]]
            if conn and rng.random() < 0.35:
                i = rng.choice(optconn) if optconn and rng.random() < 0.7 else rng.choice(conn)
            else:
                i = rng.choice(fresh) if fresh and rng.random() < 0.6 else rng.randrange(n)
            self.operands_used.add(i)
            return ("ref", i)
        return ("raw", self.raw_fml())

    def g_fol(self):
        rng = self.rng
        if self.nconstraints() == 0 or rng.random() < 0.4:
            # make sure there is something to combine
            (self.g_fragc if self.frag else self.g_taskc)(optional=rng.random() < 0.1)
            if not self.real.problem.constraints:
                return
        if rng.random() < 0.15:
            # nesting macro: an inner connective (optional half of the time) and right away an outer one over it, of the
            # same kind two times out of three (a disjunction of disjunctions, a conjunction of conjunctions, ...)
            ki = rng.choice(["or", "or", "and", "xor", "not"])
            inner = {"or": lambda: ("or", [self.operand(), self.operand()]), "and": lambda: ("and", [self.operand(), self.operand()]),
                     "xor": lambda: ("xor", self.operand(), self.operand()), "not": lambda: ("not", self.operand())}[ki]()
            d = {"op": "constraint", "c": inner}
            if rng.random() < 0.5:
                d["optional"] = True
            before = self.nconstraints()
            self.emit(d)
            if self.nconstraints() != before + 1:
                return
            me = ("ref", before)
            self.operands_used.add(before)
            ko = ki if rng.random() < 0.67 else rng.choice(["or", "and", "xor", "not", "implies"])
            outer = {"or": lambda: ("or", [me, self.operand()]), "and": lambda: ("and", [me, self.operand()]),
                     "xor": lambda: ("xor", me, self.operand()), "not": lambda: ("not", me),
                     "implies": lambda: ("implies", self.cond(), [me])}[ko]()
            self.emit({"op": "constraint", "c": outer})
            return
        k = rng.choice(["not", "or", "and", "xor", "implies", "ifThenElse", "fromExpr"])
        ops = lambda: [self.operand() for _ in range(rng.randint(1, 3))]
        if k == "not":
            c = ("not", self.operand())
        elif k in ("or", "and"):
            c = (k, ops())
            # a disjunction of disjunctions / conjunction of conjunctions: an earlier connective of the same kind
            # (optional ones first) among the operands
            same = [i for i in range(self.nconstraints()) if self.cinfo.get(i, ("", False))[0] == k
                    and i not in self.operands_used]
            if same and rng.random() < 0.6:
                opt = [i for i in same if self.cinfo[i][1]]
                i = rng.choice(opt) if opt and rng.random() < 0.8 else rng.choice(same)
                self.operands_used.add(i)
                c = (k, [("ref", i)] + c[1][:2])
        elif k == "xor":
            c = ("xor", self.operand(), self.operand())
        elif k == "implies":
            c = ("implies", self.cond(), ops())
        elif k == "ifThenElse":
            c = ("ifThenElse", self.cond(), ops(), ops())
        else:
            c = ("fromExpr", self.raw_fml())
        d = {"op": "constraint", "c": c}
        if rng.random() < 0.2:
            d["optional"] = True
        before = self.nconstraints()
        self.emit(d)
        if k == "fromExpr" and self.nconstraints() == before + 1 and rng.random() < 0.5:
            # a wrapped user expression is an operand like any other constraint
            me = ("ref", before)
            self.operands_used.add(before)
            k2 = rng.choice(["or", "implies", "xor", "ifThenElse"])
            c2 = {"or": lambda: ("or", [me, self.operand()]), "implies": lambda: ("implies", self.cond(), [me]),
                  "xor": lambda: ("xor", me, self.operand()),
                  "ifThenElse": lambda: ("ifThenElse", self.cond(), [self.operand()], [me])}[k2]()
            self.emit({"op": "constraint", "c": c2})

    def g_optc(self):
        rng = self.rng
        # a few optional constraints, then a force-apply rule over them
        ids = []
        for _ in range(rng.randint(1, 3)):
            before = self.nconstraints()
            if (self.g_fragc if self.frag else self.g_taskc)(optional=True) == "ok" and self.nconstraints() == before + 1:
                ids.append(before)
        cs = list(self.real.problem.constraints.values())
        pool = [i for i, c in enumerate(cs) if c.optional]
        if rng.random() < self.invalid_p * 3:
            pool = list(range(len(cs)))
        if not pool:
            return
        sel = rng.sample(pool, rng.randint(1, min(3, len(pool))))
        self.emit({"op": "constraint", "c": ("forceApplyN", sel, rng.randint(1, len(sel)), self.count_kind())})

    def assigned_resources(self):
        out = [n for n, w in self.real.workers.items() if w._busy_intervals and "_CumulativeWorker_" not in n]
        out += [n for n, c in self.real.cumuls.items() if any(u._busy_intervals for u in c._cumulative_workers)]
        return out

    def nbusy(self, n):
        if n in self.real.workers:
            return len(self.real.workers[n]._busy_intervals)
        return sum(len(u._busy_intervals) for u in self.real.cumuls[n]._cumulative_workers)

    def second_assignment(self):
        """give a worker that already has one busy interval a second one (constraints over consecutive
        busy intervals say nothing otherwise)"""
        once = [n for n in self.plain_workers() if self.nbusy(n) == 1]
        for w in self.rng.sample(once, len(once)):
            ts = [t for t in self.tasks() if w not in {x.name for x in self.real.tasks[t]._required_resources}]
            if ts:
                self.emit({"op": "require", "task": self.rng.choice(ts), "res": ("worker", w)})
                return True
        return False

    def gap_pair(self):
        """two elements that sort the busy intervals of one worker (ResourceNonDelay, ResourceTasksDistance,
        IndicatorResourceIdle), the first of them optional more often than not: the second must not depend on what an
        unapplied first one asserted"""
        rng = self.rng
        two = [n for n in self.plain_workers() if self.nbusy(n) >= 2]
        if not two:
            return False
        r = rng.choice(two)

        def gap():
            if rng.random() < 0.35:
                return ("nonDelay", r)
            return ("distance", r, rng.choice([0, 1, 2, 4]), None, rng.choice(["min", "max", "exact"]))
        d1 = {"op": "constraint", "c": gap()}
        if rng.random() < 0.6:
            d1["optional"] = True
        self.emit(d1)
        if rng.random() < 0.6:
            self.emit({"op": "constraint", "c": gap()})
        else:
            self.emit({"op": "indicator", "i": ("idle", r)})
        return True

    def g_resc(self):
        rng = self.rng
        if rng.random() < 0.12 and not self.frag and self.gap_pair():
            return
        if rng.random() < 0.5 and not any(self.nbusy(n) >= 2 for n in self.plain_workers()):
            if self.second_assignment():
                return
        res = self.assigned_resources()
        if rng.random() < self.invalid_p * 2:
            res = self.plain_workers() + list(self.real.cumuls)      # the ill-formed stream: possibly unassigned
        elif not res:
            return self.g_require()                                  # mostly-valid stream: assign first
        if not res:
            return self.g_worker()
        r = rng.choice(res)
        # constraints over consecutive busy intervals need at least two of them to say anything
        two = [n for n in res if self.nbusy(n) >= 2 and n in self.real.workers]
        r2 = rng.choice(two) if two and rng.random() < 0.85 else r
        plain = [n for n in res if n in self.real.workers]
        rp = rng.choice(plain) if plain and rng.random() < 0.9 else r
        ivs = lambda: self.interval_list(1, 3)
        period = rng.choice([5, 7, 10, 10])

        def in_period():
            out = []
            for _ in range(rng.randint(1, 2)):
                lo = rng.randint(0, period - 1)
                out.append((lo, min(period, lo + rng.randint(1, 3)) if rng.random() < 0.93 else period + 1))
            return list(dict.fromkeys(out))
        def workload():
            # a cumulative worker that several tasks use can be busy for more than the interval lasts: bounds around
            # and above the interval length say something there
            cums = [n for n in res if n in self.real.cumuls and self.nbusy(n) >= 2]
            if cums and rng.random() < 0.5:
                rc = rng.choice(cums)
                return ("workload", rc, [(a, b_, rng.choice([b_ - a, b_ - a + 1, 2 * (b_ - a) - 1, 1]))
                                         for a, b_ in dict.fromkeys(ivs())], rng.choice(["max", "max", "exact", "min"]))
            return ("workload", r, [(a, b_, rng.choice([0, 1, 2, b_ - a, b_ - a + 1])) for a, b_ in dict.fromkeys(ivs())],
                    self.count_kind())
        forms = [
            lambda: ("unavailable", r, ivs()),
            lambda: workload(),
            lambda: ("interrupted", r, list(dict.fromkeys(ivs()))),
            lambda: ("periodicallyUnavailable", rp,
                     in_period() if rng.random() < 0.8 else [(a, min(b_, a + 3)) for a, b_ in dict.fromkeys(ivs())][:2],
                     period, rng.choice([0, 0, 2, 7]), rng.choice([0, 0, 1, 3]),
                     rng.choice([None, None, self.H(), 15])),
            lambda: periodically_interrupted(),
        ]

        def periodically_interrupted():
            # a quarter of the time a period no longer than a fixed-duration task on that worker: the task then spans
            # whole repetitions, and the condition must still be about its whole length, not the remainder
            nonlocal period
            durs = [x["kind"][1] for x in self.script if x["op"] == "task" and x["kind"][0] == "fixed" and x["kind"][1] >= 2
                    and x["name"] in self.real.tasks and rp in {y.name for y in self.real.tasks[x["name"]]._required_resources}] \
                if rp in self.real.workers else []
            if durs and rng.random() < 0.25:
                period = max(2, rng.choice(durs) - rng.choice([0, 0, 1]))
            return ("periodicallyInterrupted", rp, in_period(), period, rng.choice([0, 0, 2, 7]), rng.choice([0, 0, 1, 3]),
                    rng.choice([None, None, self.H(), 15]))
        if two or rng.random() < 0.15:
            forms += [lambda: ("nonDelay", r2),
                      lambda: ("distance", r2, rng.choice([0, 1, 2, 4]), rng.choice([None, None, ivs()]), self.count_kind())]
        ns = self.nselects()
        if ns >= 2:
            def two():
                a = rng.randrange(ns)
                return a, rng.choice([x for x in range(ns) if x != a])
            forms += [lambda: ("sameWorkers", *two()), lambda: ("distinctWorkers", *two())] * 2
        d = {"op": "constraint", "c": rng.choice(forms)()}
        if rng.random() < 0.12:
            d["optional"] = True
        self.emit(d)

    def g_buffer(self):
        rng = self.rng
        self.nb += 1
        d = {"op": "buffer", "name": f"B{self.nb}", "concurrent": rng.random() < 0.5}
        if rng.random() < 0.8:
            d["initial"] = rng.choice([0, 2, 5, 10])
        if rng.random() < 0.4 or "initial" not in d:
            d["final"] = rng.choice([0, 1, 4, 7])
        if rng.random() < 0.5:
            d["lb"] = rng.choice([0, 0, 1, -3])
        if rng.random() < 0.4:
            d["ub"] = rng.choice([6, 10, 15])
        if rng.random() < self.invalid_p:
            d.pop("initial", None)
            d.pop("final", None)
        self.emit(d)

    def g_bufc(self):
        rng = self.rng
        if not self.real.buffers:
            return self.g_buffer()
        ts = self.tasks()
        if not ts:
            return self.g_task()
        bn = rng.choice(list(self.real.buffers))
        buf = self.real.buffers[bn]
        load = rng.random() < 0.5
        used = {t.name for t in (buf._loading_tasks if load else buf._unloading_tasks)}
        free = [t for t in ts if t not in used]
        if not free:
            return self.g_task()
        self.emit({"op": "constraint", "c": ("loadBuffer" if load else "unloadBuffer", rng.choice(free), bn,
                                             rng.choice([1, 1, 2, 3, 5]))})

    def buffer_extremum(self):
        """a buffer that is loaded by one task and unloaded by another (the loading declared first half of the time,
        a larger unloaded quantity more often than not), then the minimum or maximum of its level: the extremum ranges over
        the levels after *every* change, whatever the declared kind of the access the level variable is named after"""
        rng = self.rng
        ts = self.tasks()
        if len(ts) < 2:
            return False
        if not self.real.buffers:
            self.nb += 1
            self.emit({"op": "buffer", "name": f"B{self.nb}", "concurrent": rng.random() < 0.3,
                       "initial": rng.choice([5, 10, 10, 20])})
            if not self.real.buffers:
                return False
        bn = rng.choice(list(self.real.buffers))
        buf = self.real.buffers[bn]
        order = ["loadBuffer", "unloadBuffer"] if rng.random() < 0.5 else ["unloadBuffer", "loadBuffer"]
        t1, t2 = rng.sample(ts, 2)
        for kind, t in zip(order, (t1, t2)):
            have = buf._loading_tasks if kind == "loadBuffer" else buf._unloading_tasks
            if not have:
                q = rng.choice([1, 2, 3]) if kind == "loadBuffer" else rng.choice([2, 3, 4, 5])
                self.emit({"op": "constraint", "c": (kind, t, bn, q)})
        self.emit({"op": "indicator", "i": (rng.choice(["minBuffer", "minBuffer", "maxBuffer"]), bn)})
        return True

    def g_ind(self):
        rng = self.rng
        ts = self.tasks()
        if rng.random() < 0.07 and self.buffer_extremum():
            return
        with_due = [t for t in ts if self.real.tasks[t].due_date is not None]
        res = self.plain_workers() + list(self.real.cumuls)
        forms = []
        if ts:
            def nonlit():
                t = self.raw_term()
                return ("+", ("tstart", ts[0]), t) if isinstance(t, int) else t
            forms.append(lambda: ("expr", f"user{len(self.real.problem.indicators)}", nonlit(),
                                  None if self.simple else rng.choice([None, (0, 9), (0, 30), (0, 100)])))
        if res:
            r = rng.choice(res)
            forms += [lambda: ("utilization", r), lambda: ("nbTasksAssigned", r)]
            forms += [lambda: ("resourceCost", rng.sample(res, rng.randint(1, min(3, len(res)))))] * 2
            two = [n for n in self.plain_workers() if self.nbusy(n) >= 2]
            if not two and rng.random() < 0.3 and self.second_assignment():
                return
            if two or rng.random() < 0.15:
                ri = rng.choice(two) if two and rng.random() < 0.9 else r
                forms += [lambda: ("idle", ri)]
        if with_due:
            sub = rng.choice([None, rng.sample(with_due, rng.randint(1, len(with_due)))])
            if sub is None and len(with_due) != len(ts):
                sub = with_due
            forms += [lambda: ("tardiness", sub), lambda: ("earliness", sub), lambda: ("nbTardy", sub),
                      lambda: ("maxLateness", sub)]
        if self.real.buffers:
            # a buffer that is already loaded and unloaded first: its extrema range over every level
            both = [n for n, bf in self.real.buffers.items() if bf._loading_tasks and bf._unloading_tasks]
            b = rng.choice(both) if both and rng.random() < 0.8 else rng.choice(list(self.real.buffers))
            forms += [lambda: ("maxBuffer", b), lambda: ("minBuffer", b)] * (3 if both else 1)
        if not forms:
            return self.g_task()
        self.emit({"op": "indicator", "i": rng.choice(forms)()})

    def g_indc(self):
        rng = self.rng
        n = len(self.real.problem.indicators)
        if not n:
            return self.g_ind()
        i = rng.randrange(n)
        if rng.random() < 0.5:
            c = ("indicatorTarget", i, rng.choice([0, 1, 3, 10]))
        else:
            lo = rng.choice([None, 0, 1])
            hi = rng.choice([None, 5, 50, 0])
            if lo is None and hi is None and rng.random() > self.invalid_p * 3:
                hi = 20
            c = ("indicatorBounds", i, lo, hi)
        self.emit({"op": "constraint", "c": c})

    def g_obj(self):
        rng = self.rng
        ts = self.tasks()
        n = len(self.real.problem.indicators)
        res = self.plain_workers() + list(self.real.cumuls)
        forms = [lambda: ("makespan",), lambda: ("flowtime", rng.choice([None, ts[:2] or None])), lambda: ("priorities",),
                 lambda: ("startLatest", rng.choice([None, ts[:2] or None])), lambda: ("startEarliest",),
                 lambda: ("greatestStart", rng.choice([None, ts[:2] or None]))]
        if n:
            forms += [lambda: ("maximizeIndicator", rng.randrange(n), rng.choice([1, 2, 3, 0])),
                      lambda: ("minimizeIndicator", rng.randrange(n), rng.choice([1, 2, 5, 0]))] * 4
        if res:
            forms += [lambda: ("resourceUtilization", rng.choice(res))] * 2
            forms += [lambda: ("resourceUtilization", rng.choice(res)),
                      lambda: ("resourceCost", rng.sample(res, rng.randint(1, min(2, len(res)))))]
            used = [n for n in self.plain_workers() if self.nbusy(n) >= 1]
            if used or rng.random() < 0.15:
                rf = rng.choice(used) if used and rng.random() < 0.9 else rng.choice(res)
                forms += [lambda: ("flowtimeSingleResource", rf, rng.choice([None, self.interval(), (0, self.H())]))] * 2
        if self.real.buffers:
            b = rng.choice(list(self.real.buffers))
            forms += [lambda: ("maximizeMaxBuffer", b), lambda: ("minimizeMaxBuffer", b)]
        if self.direction is not None:
            ups = ("maximizeIndicator", "startLatest", "resourceUtilization", "maximizeMaxBuffer")
            for _ in range(20):
                o = rng.choice(forms)()
                have = [x["o"] for x in self.script if x["op"] == "objective"]
                if any(h[0] == o[0] and (o[0] not in ("maximizeIndicator", "minimizeIndicator") or h[1] == o[1]) for h in have):
                    continue            # the objective's name would collide with an earlier one
                if (o[0] in ups) == (self.direction == "max"):
                    return self.emit({"op": "objective", "o": o})
            return None
        self.emit({"op": "objective", "o": rng.choice(forms)()})

    # ------------------------------------------------------------------ driver
    def run_focus(self):
        rng = self.rng
        for _ in range(rng.randint(2, 4)):
            self.g_task()
        for _ in range(rng.randint(1, 2)):
            self.g_worker()
        ws = self.plain_workers()
        if rng.random() < 0.3 and len(self.tasks()) >= 2:
            # two overlapping selections required by two tasks (Same / DistinctWorkers, selection counts)
            while len(self.plain_workers()) < 3:
                self.g_worker()
            ws = self.plain_workers()
            for t in self.tasks()[:2]:
                self.g_select()
                if self.nselects():
                    self.emit({"op": "require", "task": t, "res": ("select", self.nselects() - 1)})
        if rng.random() < 0.2:
            # a cumulative worker shared by all the tasks: several of them may use it at the same time
            self.g_cumulative()
            if self.real.cumuls:
                cn = list(self.real.cumuls)[-1]
                for t in self.tasks():
                    if not self.real.tasks[t]._required_resources:
                        self.emit({"op": "require", "task": t, "res": ("cumul", cn)})
        for t in self.tasks():
            if self.real.tasks[t]._required_resources:
                continue
            if rng.random() < 0.9:
                d = {"op": "require", "task": t, "res": ("worker", rng.choice(ws))}
                m = rng.random()
                if m < 0.2:
                    d["dynamic"] = True
                elif m < 0.45:
                    kind = next((x["kind"] for x in self.script if x["op"] == "task" and x["name"] == t), ("zero",))
                    room = kind[1] if kind[0] in ("fixed", "var") else 0
                    di, eo = rng.choice([0, 1, 1, 2]), rng.choice([0, 0, 1, 2])
                    if di + eo <= room and di + eo > 0:
                        d["delay_in"], d["early_out"] = di, eo
                self.emit(d)
        kinds = list(self.w)
        weights = [self.w[k] for k in kinds]
        want = rng.randint(1, 3) if self.direction is None else rng.randint(3, 5)
        for _ in range(8):
            if sum(1 for x in self.script if x["op"] in ("constraint", "indicator", "objective")) >= want:
                break
            getattr(self, "g_" + rng.choices(kinds, weights)[0])()
        return self.script

    def run(self):
        d = {"op": "problem", "name": "pb"}
        if self.horizon is not None:
            d["horizon"] = self.horizon
        self.emit(d)
        if self.focus:
            return self.run_focus()
        kinds = list(self.w)
        weights = [self.w[k] for k in kinds]
        # always start with a couple of tasks so that references resolve (a candidate that would make the problem
        # infeasible is dropped, hence the loop)
        for _ in range(8):
            if len(self.real.tasks) >= 2:
                break
            self.g_task()
        n = self.rng.randint(max(3, self.size // 2), self.size)
        early = self.rng.randrange(n) if (self.rng.random() < 0.25 and not self.simple) else -1
        for i in range(n):
            if i == early:
                # the solver object may be constructed at any point before the problem is complete
                self.emit({"op": "solver"})
            k = self.rng.choices(kinds, weights)[0]
            getattr(self, "g_" + k)()
        return self.script


def gen_script(seed, profile="core", size=12, thorough=False, simple=False):
    rng = random.Random(seed)
    g = Gen(rng, profile, size=size, thorough=thorough, simple=simple)
    s = g.run()
    return s, g.kinds
