"""Construction scripts: one representation, two interpreters.

A script is a list of declarations (dicts).  `Real` executes them against the real
processscheduler library from /repo's working tree (in-process); `to_line` renders the same
declaration as one s-expression line of the protocol understood by the Lean driver.
"""
import contextlib
import io
import os
import sys
import warnings

REPO = os.environ.get("PS_REPO", "/repo")
if REPO not in sys.path:
    sys.path.insert(0, REPO)

warnings.simplefilter("ignore")

import z3  # noqa: E402
import processscheduler as ps  # noqa: E402
import processscheduler.base  # noqa: E402
import pydantic  # noqa: E402

assert os.path.realpath(ps.__file__).startswith(os.path.realpath(REPO)), ps.__file__


@contextlib.contextmanager
def quiet():
    buf = io.StringIO()
    with contextlib.redirect_stdout(buf):
        yield buf


def err_class(e):
    if isinstance(e, pydantic.ValidationError):
        return "ValidationError"
    for c in (AssertionError, TypeError, AttributeError, KeyError, ValueError):
        if isinstance(e, c):
            return c.__name__
    return "Other"


# ---------------------------------------------------------------- s-expression rendering
def q(s):
    return '"' + s.replace("\\", "\\\\").replace('"', '\\"') + '"'


def opt(v, f=str):
    return "none" if v is None else f(v)


def b(v):
    return "true" if v else "false"


def lst(xs, f=str):
    return "(" + " ".join(f(x) for x in xs) + ")"


def kind_sx(k):
    if k[0] == "fixed":
        return f"(fixed {k[1]})"
    if k[0] == "zero":
        return "(zero)"
    return f"(var {k[1]} {opt(k[2])} {opt(k[3], lambda a: lst(a))})"


def cost_sx(c):
    if c[0] == "const":
        return f"(const {c[1]})"
    if c[0] == "linear":
        return f"(linear {c[1]} {c[2]})"
    return "(poly " + " ".join(str(x) for x in c[1]) + ")"


def res_sx(r):
    if r[0] == "worker":
        return f"(worker {q(r[1])})"
    if r[0] == "select":
        return f"(select {r[1]})"
    return f"(cumul {q(r[1])})"


def to_line(d):
    op = d["op"]
    if op == "solver":
        return None        # constructing the solver object early does not touch the problem
    if op == "problem":
        return f"(problem {q(d['name'])} {opt(d.get('horizon'))})"
    if op == "task":
        return (f"(task {q(d['name'])} {kind_sx(d['kind'])} {b(d.get('optional', False))} {d.get('work', 0)} "
                f"{opt(d.get('release'))} {opt(d.get('due'))} {b(d.get('deadline', True))} {d.get('prio', 1)})")
    if op == "worker":
        return f"(worker {q(d['name'])} {d.get('prod', 1)} {cost_sx(d.get('cost', ('const', 0)))})"
    if op == "cumulative":
        return f"(cumulative {q(d['name'])} {d['size']} {d.get('prod', 1)} {cost_sx(d.get('cost', ('const', 0)))})"
    if op == "select":
        return f"(select {opt(d.get('name'), q)} {lst(d['workers'], q)} {d.get('n', 1)} {d.get('kind', 'exact')})"
    if op == "require":
        return (f"(require {q(d['task'])} {res_sx(d['res'])} {b(d.get('dynamic', False))} "
                f"{d.get('delay_in', 0)} {d.get('early_out', 0)})")
    from harness import pslib_ext
    return pslib_ext.to_line(d)


def make_cost(c):
    if c[0] == "const":
        return ps.ConstantFunction(value=c[1])
    if c[0] == "linear":
        return ps.LinearFunction(slope=c[1], intercept=c[2])
    return ps.PolynomialFunction(coefficients=list(c[1]))


class Real:
    """Executes a script on the real library."""

    def __init__(self):
        processscheduler.base.active_problem = None
        self.problem = None
        self.tasks = {}
        self.workers = {}
        self.cumuls = {}
        self.constraints = []     # every Constraint object created successfully, by id
        self.indicators = []
        self.objectives = []
        self.buffers = {}
        self.results = []
        self.early_solver = None

    # registries that mirror the model's ids
    def selects(self):
        return list(self.problem.select_workers.values()) if self.problem is not None else []

    def constraint_by_id(self, i):
        return list(self.problem.constraints.values())[i]

    def run(self, script):
        for d in script:
            self.results.append(self.step(d))
        return self.results

    def step(self, d):
        try:
            with quiet():
                self._do(d)
            return "ok"
        except Exception as e:  # noqa: BLE001
            return f"(err {err_class(e)})"

    def _task_kwargs(self, d):
        kw = dict(name=d["name"], optional=d.get("optional", False), work_amount=d.get("work", 0),
                  release_date=d.get("release"), due_date=d.get("due"),
                  due_date_is_deadline=d.get("deadline", True), priority=d.get("prio", 1))
        return kw

    def resource(self, r):
        if r[0] == "worker":
            return self.workers[r[1]]
        if r[0] == "select":
            return self.selects()[r[1]]
        return self.cumuls[r[1]]

    def _do(self, d):
        op = d["op"]
        if op == "solver":
            self.early_solver = ps.SchedulingSolver(problem=self.problem)
            return
        if op == "problem":
            kw = {"name": d["name"]}
            if d.get("horizon") is not None:
                kw["horizon"] = d["horizon"]
            for k in ("delta_time", "start_time", "end_time"):
                if d.get(k) is not None:
                    kw[k] = d[k]
            p = ps.SchedulingProblem(**kw)
            self.problem = p
            self.tasks, self.workers, self.cumuls, self.buffers = {}, {}, {}, {}
            self.indicators, self.objectives = [], []
        elif op == "task":
            k = d["kind"]
            kw = self._task_kwargs(d)
            if k[0] == "fixed":
                t = ps.FixedDurationTask(duration=k[1], **kw)
            elif k[0] == "zero":
                t = ps.ZeroDurationTask(**kw)
            else:
                t = ps.VariableDurationTask(min_duration=k[1], max_duration=k[2], allowed_durations=k[3], **kw)
            self.tasks[d["name"]] = t
        elif op == "worker":
            w = ps.Worker(name=d["name"], productivity=d.get("prod", 1), cost=make_cost(d.get("cost", ("const", 0))))
            self.workers[d["name"]] = w
        elif op == "cumulative":
            try:
                c = ps.CumulativeWorker(name=d["name"], size=d["size"], productivity=d.get("prod", 1),
                                        cost=make_cost(d.get("cost", ("const", 0))))
                self.cumuls[d["name"]] = c
            finally:
                # unit workers that got registered (possibly before a failure) are real workers
                if self.problem is not None:
                    for n, w in self.problem.workers.items():
                        self.workers.setdefault(n, w)
        elif op == "select":
            kw = dict(list_of_workers=[self.workers[w] if w in self.workers else self.cumuls[w] for w in d["workers"]],
                      nb_workers_to_select=d.get("n", 1), kind=d.get("kind", "exact"))
            if d.get("name") is not None:
                kw["name"] = d["name"]
            ps.SelectWorkers(**kw)
        elif op == "require":
            self.tasks[d["task"]].add_required_resource(
                self.resource(d["res"]), dynamic=d.get("dynamic", False),
                delay_in=d.get("delay_in", 0), early_out=d.get("early_out", 0))
        else:
            from harness import pslib_ext
            pslib_ext.do(self, d)

    # ------------------------------------------------------------------ solver side
    def solver(self, **cfg):
        with quiet():
            return ps.SchedulingSolver(problem=self.problem, **cfg)

    def initialize(self, **cfg):
        s = self.early_solver if (self.early_solver is not None and not cfg
                                  and self.early_solver.problem is self.problem) else self.solver(**cfg)
        with quiet():
            s.initialize()
        return s
