"""Subprocess wrapper around the compiled Lean driver (line protocol)."""
import os
import subprocess

VERIF = os.path.dirname(os.path.dirname(os.path.abspath(__file__)))
DRIVER = os.path.join(VERIF, "lean", ".lake", "build", "bin", "driver")


class Driver:
    def __init__(self):
        self.p = subprocess.Popen([DRIVER], stdin=subprocess.PIPE, stdout=subprocess.PIPE,
                                  text=True, bufsize=1)

    def send(self, line):
        self.p.stdin.write(line + "\n")
        self.p.stdin.flush()
        return self.p.stdout.readline().rstrip("\n")

    def send_multi(self, line):
        """for commands answering `(n K)` followed by K lines"""
        head = self.send(line)
        if not head.startswith("(n "):
            return head, []
        k = int(head[3:-1])
        return head, [self.p.stdout.readline().rstrip("\n") for _ in range(k)]

    def reset(self):
        return self.send("(reset)")

    def close(self):
        try:
            self.p.stdin.close()
            self.p.wait(timeout=5)
        except Exception:  # noqa: BLE001
            self.p.kill()
