"""./check <PROPERTY> [--tier quick|thorough] [--replay path]

Decides one property: (1) builds the Lean theorems of the property and the model driver from
/verif/lean, (2) audits axioms and forbidden tokens, (3) runs the correspondence channels of the
property against the real library in /repo's working tree, (4) on any break searches for a
concrete failing input, (5) replays known findings, (6) writes evidence/<id>.json.
Exit 0 = held on everything explored; 1 = VIOLATION (line printed); 2 = infrastructure error."""
import argparse
import hashlib
import json
import os
import re
import subprocess
import sys
import time
import traceback

VERIF = os.path.dirname(os.path.dirname(os.path.abspath(__file__)))
sys.path.insert(0, VERIF)
LEAN = os.path.join(VERIF, "lean")
ALLOWED_AXIOMS = {"propext", "Classical.choice", "Quot.sound"}
FORBIDDEN = re.compile(r"\b(sorry|admit|native_decide|bv_decide|implemented_by|unsafe)\b|^\s*axiom\s|maxHeartbeats\s+0")


def sh(cmd, cwd=None, timeout=3000):
    p = subprocess.run(cmd, cwd=cwd, shell=True, capture_output=True, text=True, timeout=timeout)
    return p.returncode, p.stdout + p.stderr


def strip_comments(src):
    """remove Lean block and line comments (no nesting subtleties needed for a token scan)"""
    out = []
    i = 0
    depth = 0
    n = len(src)
    while i < n:
        if src.startswith("/-", i):
            depth += 1
            i += 2
        elif depth and src.startswith("-/", i):
            depth -= 1
            i += 2
        elif depth:
            i += 1
        elif src.startswith("--", i):
            while i < n and src[i] != "\n":
                i += 1
        else:
            out.append(src[i])
            i += 1
    return "".join(out)


def modules_of(prop):
    """theorem modules of a property: its own file plus those named in PROPS[prop]['modules']"""
    from harness import props
    return [prop] + list(props.PROPS.get(prop, {}).get("modules", []))


def lean_build(prop):
    """build the property's theorem modules and the driver; returns (ok, log)"""
    targets = " ".join(f"PS.Theorems.{m}" for m in modules_of(prop)) + " driver"
    rc, out = sh(f"lake build {targets}", cwd=LEAN)
    return rc == 0, out


def import_closure(mods):
    """the PS.* modules the given modules import, transitively (read from the `import` lines)"""
    seen, todo = [], list(mods)
    while todo:
        m = todo.pop()
        if m in seen:
            continue
        fn = os.path.join(LEAN, *m.split(".")) + ".lean"
        if not os.path.exists(fn):
            continue
        seen.append(m)
        for ln in open(fn):
            mo = re.match(r"\s*import\s+(PS(?:\.[A-Za-z0-9_]+)*)\s*$", ln)
            if mo:
                todo.append(mo.group(1))
    return sorted(seen)


def lean_recheck(prop):
    """thorough tier: the toolchain's independent re-checker replays every declaration of the property's theorem
    modules and of every PS module they import into a fresh kernel environment"""
    mods = import_closure([f"PS.Theorems.{m}" for m in modules_of(prop)])
    rc, out = sh("lake env leanchecker " + " ".join(mods), cwd=LEAN, timeout=3000)
    return rc == 0, mods, out[-800:]


def lean_audit(prop, theorems):
    """#print axioms for every property theorem + forbidden-token scan of the sources"""
    problems = []
    axioms = {}
    if theorems:
        tmp = os.path.join(LEAN, f".audit_{prop}_{os.getpid()}.lean")
        with open(tmp, "w") as f:
            f.write("".join(f"import PS.Theorems.{m}\n" for m in modules_of(prop)) +
                    "".join(f"#print axioms PS.{t}\n" for t in theorems))
        try:
            rc, out = sh(f"lake env lean {os.path.basename(tmp)}", cwd=LEAN)
        finally:
            os.unlink(tmp)
        if rc != 0:
            problems.append("axiom audit failed to run: " + out[-500:])
        for t in theorems:
            m = re.search(r"'PS\." + re.escape(t) + r"' (depends on axioms: \[([^\]]*)\]|does not depend on any axioms)", out)
            if not m:
                problems.append(f"theorem {t} not found by the audit")
                continue
            ax = set(a.strip() for a in (m.group(2) or "").replace("\n", " ").split(",") if a.strip())
            axioms[t] = sorted(ax)
            if not ax <= ALLOWED_AXIOMS:
                problems.append(f"theorem {t} depends on {sorted(ax - ALLOWED_AXIOMS)}")
    for root, _, files in os.walk(os.path.join(LEAN, "PS")):
        for fn in files:
            if fn.endswith(".lean"):
                src = strip_comments(open(os.path.join(root, fn)).read())
                for ln in src.splitlines():
                    if FORBIDDEN.search(ln):
                        problems.append(f"forbidden token in {fn}: {ln.strip()[:80]}")
    return problems, axioms


class Report:
    def __init__(self, prop, tier, seed):
        self.prop, self.tier, self.seed = prop, tier, seed
        self.t0 = time.time()
        self.obligations = 0
        self.discharged = 0
        self.evaluations = 0
        self.nontrivial = set()
        self.samples = []
        self.violations = []          # (replay_path, found_input: bool)
        self.known = []
        self.dist = {}
        self.notes = []
        self.broken = []              # names of theorems / channels that no longer check
        self.axioms = {}
        self.extra = {}

    def count(self, key, n=1):
        self.dist[key] = self.dist.get(key, 0) + n

    def oblige(self, ok, name):
        self.obligations += 1
        if ok:
            self.discharged += 1
        else:
            self.broken.append(name)

    def replay_path(self, payload):
        os.makedirs(os.path.join(VERIF, "replays"), exist_ok=True)
        h = hashlib.sha1(json.dumps(payload, sort_keys=True, default=str).encode()).hexdigest()[:10]
        p = os.path.join("replays", f"{self.prop}-{h}.json")
        with open(os.path.join(VERIF, p), "w") as f:
            json.dump(payload, f, indent=1, default=str)
        return p

    def violation(self, payload, found):
        p = self.replay_path(payload)
        self.violations.append((p, found))
        return p

    def write_evidence(self, rule, trusted, assumptions, checker_cmd):
        ev = {
            "property_id": self.prop, "tier": self.tier, "seed": self.seed, "level": "proof",
            "coverage": {
                "obligations": self.obligations, "discharged": self.discharged,
                "checker_cmd": checker_cmd, "trusted_base": trusted,
                "evaluations": max(self.evaluations, 1), "distinct_nontrivial": len(self.nontrivial),
                "rule": rule, "samples": self.samples[:5] or ["(none)"],
                "distribution": dict(sorted(self.dist.items())),
                "axioms": self.axioms, "broken": self.broken, "known_findings_replayed": self.known,
                **self.extra,
            },
            "assumptions": assumptions,
            "wall_s": round(time.time() - self.t0, 2),
            "violations": len(self.violations),
        }
        os.makedirs(os.path.join(VERIF, "evidence"), exist_ok=True)
        with open(os.path.join(VERIF, "evidence", f"{self.prop}.json"), "w") as f:
            json.dump(ev, f, indent=1, default=str)


def main():
    ap = argparse.ArgumentParser()
    ap.add_argument("prop")
    ap.add_argument("--tier", default=os.environ.get("VERIF_TIER", "quick"))
    ap.add_argument("--replay", default=None)
    a = ap.parse_args()
    seed = int(os.environ.get("VERIF_SEED", "0") or 0)
    from harness import props
    spec = props.PROPS.get(a.prop)
    if spec is None:
        print(f"unknown property {a.prop}")
        return 2
    if a.replay:
        return props.replay(a.prop, a.replay)
    rep = Report(a.prop, a.tier, seed)
    try:
        # (0) translators that regenerate Lean sources from /repo's working tree
        props.pre_build(a.prop, rep)
        # (1) proof obligations
        ok, log = lean_build(a.prop)
        rep.oblige(ok, f"lake build PS.Theorems.{a.prop} driver")
        if not ok:
            rep.notes.append(log[-2000:])
            if not os.path.exists(os.path.join(LEAN, ".lake", "build", "bin", "driver")):
                print(log[-3000:])
                print("infrastructure: the model driver does not build")
                return 2
        problems, axioms = lean_audit(a.prop, spec["theorems"]) if ok else (["build failed"], {})
        rep.axioms = axioms
        for t in spec["theorems"]:
            rep.oblige(ok and t in axioms and set(axioms[t]) <= ALLOWED_AXIOMS, f"theorem {t}")
        rep.oblige(not [p for p in problems if "forbidden" in p], "no sorry/admit/axiom/native_decide in sources")
        for p in problems:
            rep.notes.append(p)
        if a.tier == "thorough" and ok:
            okc, mods, outc = lean_recheck(a.prop)
            rep.oblige(okc, f"leanchecker re-check of {len(mods)} modules")
            rep.extra["leanchecker_modules"] = mods
            if not okc:
                rep.notes.append(outc)
        # (2) correspondence + search
        props.run_channels(a.prop, rep)
        # (3) known findings
        props.replay_known(a.prop, rep)
    except Exception:  # noqa: BLE001
        traceback.print_exc()
        print("infrastructure error")
        return 2
    # (4) verdict
    if rep.broken and not rep.violations:
        # a proof obligation or a correspondence no longer checks and the search found no input
        p = rep.replay_path({"property": a.prop, "no_longer_checks": rep.broken, "notes": rep.notes[-5:]})
        rep.violations.append((p, False))
    rep.write_evidence(spec["rule"], props.TRUSTED, spec["assumptions"],
                       "cd lean && lake build " + " ".join(f"PS.Theorems.{m}" for m in modules_of(a.prop)) +
                       " && #print axioms <each theorem>")
    for k in rep.known:
        print(f"KNOWN-FINDING: property={a.prop} {k}")
    if rep.violations:
        for p, found in rep.violations[:10]:
            print(f"VIOLATION property={a.prop} replay={p}" + ("" if found else " no-failing-input-found"))
        return 1
    print(f"OK property={a.prop} tier={a.tier} seed={seed} obligations={rep.obligations} discharged={rep.discharged} "
          f"evaluations={rep.evaluations} wall={time.time() - rep.t0:.1f}s")
    return 0


if __name__ == "__main__":
    sys.exit(main())
