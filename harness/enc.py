"""ENC channel: a script is executed on the real library and on the Lean model; the accept /
reject answers and the emitted assertion lists are compared after canonical renaming."""
from harness import pslib, z3walk


def lean_cfg(cfg):
    parts = [f"(debug {pslib.b(cfg.get('debug', False))})",
             f"(optimize {pslib.b(cfg.get('optimizer', 'incremental') == 'optimize')})",
             f"(priority {cfg.get('optimize_priority', 'pareto')})"]
    return "(initialize " + " ".join(parts) + ")"


def run_script(driver, script, cfg=None, want_solver=False):
    """returns dict(results_py, results_lean, py, lean, owners, solver, real, error)"""
    cfg = cfg or {}
    real = pslib.Real()
    res_py = real.run(script)
    driver.reset()
    res_lean = [("ok" if pslib.to_line(d) is None else driver.send(pslib.to_line(d))) for d in script]
    out = {"results_py": res_py, "results_lean": res_lean, "real": real, "py": None, "lean": None,
           "owners": None, "solver": None, "init_error": None, "py_raw": None, "lean_raw": None}
    if real.problem is None:
        return out
    try:
        s = real.initialize(**cfg)
        out["solver"] = s
        out["py_raw"] = [z3walk.sx(a) for a in s._solver.assertions()]
        out["py"] = z3walk.canon(out["py_raw"])
    except Exception as e:  # noqa: BLE001
        out["init_error"] = f"{type(e).__name__}: {e}"
    _, ll = driver.send_multi(lean_cfg(cfg))
    out["owners"] = [l.split("\t", 1)[0] for l in ll]
    out["lean_raw"] = [l.split("\t", 1)[1] for l in ll]
    out["lean"] = z3walk.canon(out["lean_raw"])
    return out


def compare(out):
    """list of human-readable differences (empty = agreement)"""
    diffs = []
    for i, (a, c) in enumerate(zip(out["results_py"], out["results_lean"])):
        if a != c:
            diffs.append(f"decl {i}: real={a} model={c}")
    if out["init_error"]:
        diffs.append(f"initialize raised on the real code: {out['init_error']}")
        return diffs
    if out["py"] is None:
        return diffs
    py, ln = out["py"], out["lean"]
    if len(py) != len(ln):
        diffs.append(f"assertion count: real={len(py)} model={len(ln)}")
    for i, (a, c) in enumerate(zip(py, ln)):
        if a != c:
            diffs.append(f"assertion {i} [{out['owners'][i] if i < len(out['owners']) else '?'}]:\n   real : {a}\n   model: {c}")
            if len(diffs) > 6:
                break
    return diffs
