"""OUT channel: the exporters and the Gantt renderer of the real library, read back from what they
produced (CSV text re-read with csv, JSON with json, xlsx with zipfile + xml.etree, matplotlib
artists of an Agg figure, SMT-LIB text re-parsed by z3), against the model's `dfRows`,
`excelCells`, `ganttBars`, `bufferSteps` on the same solution."""
import csv
import io
import json
import os
import re
import shutil
import tempfile
import zipfile
import xml.etree.ElementTree as ET

import matplotlib
matplotlib.use("Agg")
import matplotlib.pyplot as plt  # noqa: E402
import z3  # noqa: E402

import processscheduler as ps  # noqa: E402

from harness import pslib, smrun, sol as solch, sem, z3walk  # noqa: E402
from harness.pslib import q  # noqa: E402

NS = {"m": "http://schemas.openxmlformats.org/spreadsheetml/2006/main",
      "r": "http://schemas.openxmlformats.org/officeDocument/2006/relationships"}


def col_index(ref):
    letters = re.match(r"[A-Z]+", ref).group(0)
    n = 0
    for ch in letters:
        n = n * 26 + (ord(ch) - 64)
    return n - 1, int(ref[len(letters):]) - 1


def read_xlsx(path):
    """{sheet: ({(row, col): text}, [(row, c1, c2)])}"""
    out = {}
    with zipfile.ZipFile(path) as z:
        shared = []
        if "xl/sharedStrings.xml" in z.namelist():
            root = ET.fromstring(z.read("xl/sharedStrings.xml"))
            for si in root.findall("m:si", NS):
                shared.append("".join(t.text or "" for t in si.iter("{%s}t" % NS["m"])))
        wb = ET.fromstring(z.read("xl/workbook.xml"))
        rels = ET.fromstring(z.read("xl/_rels/workbook.xml.rels"))
        relmap = {r.get("Id"): r.get("Target") for r in rels}
        for sh in wb.find("m:sheets", NS):
            name = sh.get("name")
            target = relmap[sh.get("{%s}id" % NS["r"])]
            root = ET.fromstring(z.read("xl/" + target.lstrip("/").replace("xl/", "")))
            cells = {}
            for c in root.iter("{%s}c" % NS["m"]):
                col, row = col_index(c.get("r"))
                v = c.find("m:v", NS)
                if v is None:
                    continue
                text = shared[int(v.text)] if c.get("t") == "s" else v.text
                cells[(row, col)] = text
            merges = []
            mc = root.find("m:mergeCells", NS)
            if mc is not None:
                for m in mc:
                    a, b_ = m.get("ref").split(":")
                    c1, r1 = col_index(a)
                    c2, _ = col_index(b_)
                    merges.append((r1, c1, c2))
            out[name] = (cells, sorted(merges))
    return out


def model_excel(lines):
    """apply the model's write / merge calls with spreadsheet semantics (later writes win,
    negative columns are ignored by xlsxwriter)"""
    out = {}
    for l in lines:
        p = sem.tokenize_quoted(l)
        if p[0] == "write":
            sh, r, c, t = p[1], int(p[2]), int(p[3]), p[4]
            if c < 0:
                continue        # xlsxwriter ignores negative columns
            out.setdefault(sh, ({}, []))
            if t == "":
                out[sh][0].pop((r, c), None)      # an empty string is written as a blank cell (erases)
            else:
                out[sh][0][(r, c)] = t
        elif p[0] == "merge":
            sh, r, c1, c2, t = p[1], int(p[2]), int(p[3]), int(p[4]), p[5]
            if c1 < 0:
                continue
            out.setdefault(sh, ({}, []))
            if t != "":
                out[sh][0][(r, c1)] = t
            out[sh][1].append((r, c1, c2))
    return {k: (v[0], sorted(v[1])) for k, v in out.items()}


XLIM = {}


def gantt_real(solution, mode):
    """(ylabels, bars) read from the matplotlib artists"""
    plt.close("all")
    ps.render_gantt_matplotlib(solution, show_plot=False, render_mode=mode)
    fig = plt.gcf()
    ax = fig.axes[0]
    XLIM["last"] = tuple(ax.get_xlim())
    labels = [t.get_text() for t in ax.get_yticklabels()]
    bars = []
    texts = [t for t in ax.texts]
    k = 0
    for coll in ax.collections:
        for path in coll.get_paths():
            vs = path.vertices
            xs = [v[0] for v in vs]
            ys = [v[1] for v in vs]
            x0, x1 = min(xs), max(xs)
            y0 = min(ys)
            tx = texts[k]
            k += 1
            bars.append((int(round(y0 / 2)), round(x0 * 20), round((x1 - x0) * 20), tx.get_text(), round(tx.get_position()[0] * 20)))
    steps = []
    if len(fig.axes) > 1:
        bx = fig.axes[1]
        for line in bx.get_lines():
            X, Y = list(line.get_xdata()), list(line.get_ydata())
            for i in range(0, len(X) - 1, 3):
                steps.append((line.get_label(), int(X[i]), int(X[i + 1]), int(Y[i])))
    plt.close("all")
    return labels, bars, steps


def overlapping_assignments(solution):
    """known finding F38: a (cumulative) resource holding two tasks at overlapping times makes the Excel resource view
    raise OverlappingRange (two merged ranges in one row)"""
    for r in solution.resources.values():
        a = [x for x in r.assignments if x[2] - x[1] >= 1]
        for i in range(len(a)):
            for j in range(i + 1, len(a)):
                if a[i][1] < a[j][2] and a[j][1] < a[i][2] and (a[i][2] - a[i][1] >= 2 or a[j][2] - a[j][1] >= 2):
                    return True
        # the same situation with a zero-length assignment: its cell falls inside the merged range of the longer one and
        # is silently lost instead of raising
        for z in r.assignments:
            if z[2] == z[1] and any(x[2] - x[1] >= 2 and x[1] <= z[1] < x[2] for x in a):
                return True
    return False


def beyond_xlsx_columns(solution, limit=16000):
    ends = [t.end for t in solution.tasks.values()] + [a[2] for r in solution.resources.values() for a in r.assignments]
    return any(e >= limit for e in ends) or solution.horizon >= limit


def run_case(driver, script, rng, use_z3=True, what=("df", "excel", "gantt", "json", "smt"), stats=None):
    cal = rng.choice([(None, None), (None, None), (60, None), (3600, 86400), (86400, None), (129600, 3600)])
    real = pslib.Real()
    real.run(solch.problem_decl(script, cal))
    driver.reset()
    for d in script:
        if pslib.to_line(d) is not None:
            driver.send(pslib.to_line(d))
    if real.problem is None:
        return [], 0
    cfg = {"optimizer": rng.choice(["incremental", "optimize"])} if real.problem.objectives else {}
    with smrun.silent():
        s = ps.SchedulingSolver(problem=real.problem, max_time=5, **cfg)
        try:
            # the constraint system of the problem, before any search has touched the solver object
            s.initialize()
            base = list(s._solver.assertions())
            solution = s.solve()
        except OverflowError:
            # an unbounded schedule (no horizon, objective pushing instants up) under a calendar: Python's datetime
            # cannot represent the dates and build_solution raises - nothing is exported, nothing to compare
            if stats is not None:
                stats["out_skipped_dates_out_of_range"] = stats.get("out_skipped_dates_out_of_range", 0) + 1
            return [], 0
        except Exception as e:  # noqa: BLE001
            if "quantified constraints is not supported" in str(e):
                # z3.Optimize refuses unbounded objectives over the quantified rules of a concurrent buffer (the F42
                # family: the built-in optimiser on problems with buffers): nothing is exported, nothing to compare
                if stats is not None:
                    stats["out_skipped_optimize_quantified_F42_region"] = stats.get("out_skipped_optimize_quantified_F42_region", 0) + 1
                return [], 0
            return [f"solve raised {type(e).__name__}: {e}"], 0
    diffs = []
    n = 0
    if "smt" in what:
        d2, k = smt_roundtrip(s, base, solution)
        diffs += d2
        n += k
    if not solution:
        return diffs, n
    sorts = solch.var_sorts_from(s)
    m = s._model
    vals = {}
    for nm, srt in sorts.items():
        v = m.eval(z3.Bool(nm) if srt == "Bool" else z3.Int(nm), model_completion=True)
        if srt == "Bool":
            vals[nm] = z3.is_true(v)
        elif srt == "Int" and z3.is_int_value(v):
            vals[nm] = v.as_long()
    if rng.random() < (0.85 if what == ("gantt",) else 0.6) and real.problem.delta_time is None and real.problem.horizon is None:
        # a stretched copy of the schedule: every non-negative instant multiplied by 9, 11 or 13, so that the chart and
        # the sheets also see horizons near and above 100 and bars that end at the horizon (the exporters read a
        # solution object, whatever problem it solves; only for problems without a fixed horizon, whose reported horizon
        # is read from the interpretation and scales with it)
        top = max([v for v in vals.values() if isinstance(v, int) and not isinstance(v, bool)] + [1])
        ks = [k_ for k_ in (3, 5, 7, 9, 11, 13, 17, 19, 23) if 80 <= k_ * top <= 260]
        k = rng.choice(ks) if ks else 1         # (charts with thousands of ticks take minutes to render)
        vals = {n: (v * k if isinstance(v, int) and not isinstance(v, bool) and v >= 0 else v) for n, v in vals.items()}
        from harness import sm as _sm
        try:
            with smrun.silent():
                solution = s.build_solution(_sm.FakeModel(dict(vals)))
        except Exception as e:  # noqa: BLE001
            return diffs + [f"build_solution raised {type(e).__name__}: {e} on a stretched schedule"], n
        if stats is not None:
            stats["out_stretched_schedules"] = stats.get("out_stretched_schedules", 0) + 1
    vals = solch.rename_auto(real, vals)
    equiv = "EquivalentIndicator" in real.problem.indicators
    line = solch.build_line(vals, cal)
    head, rest = line.split(" (", 1)
    _, lines = driver.send_multi(head.replace("(build", "(outputs", 1) + f" {pslib.b(equiv)} (" + rest)
    rows_m = [l for l in lines if l.startswith("row ")]
    cells_m = [l for l in lines if l.startswith(("write ", "merge "))]
    tmp = tempfile.mkdtemp(prefix="psout_")
    try:
        if "df" in what:
            df = solution.to_df()
            rows_r = []
            for _, r in df.iterrows():
                tardy = r["Tardy"]
                rows_r.append(f"row {q(r['Task name'])} [{' '.join(q(x) for x in r['Allocated Resources'])}] {r['Start']} {r['End']} "
                              f"{r['Duration']} {str(bool(r['Scheduled'])).lower()} {'none' if tardy is False else int(tardy)}")
            n += len(rows_r)
            if rows_r != rows_m:
                diffs.append(f"to_df: real={rows_r[:3]} model={rows_m[:3]}")
            text = solution.to_csv()
            rd = list(csv.reader(io.StringIO(text)))
            if rd[0] != ["Task name", "Allocated Resources", "Start", "End", "Duration", "Scheduled", "Tardy"]:
                diffs.append(f"csv header {rd[0]}")
            for line, t in zip(rd[1:], solution.tasks.values()):
                if [line[0], line[2], line[3], line[4], line[5]] != [t.name, str(t.start), str(t.end), str(t.duration), str(t.scheduled)]:
                    diffs.append(f"csv row {line} vs task {t.name} {t.start} {t.end} {t.duration} {t.scheduled}")
                if line[1] != str(t.assigned_resources):
                    diffs.append(f"csv resources {line[1]} vs {t.assigned_resources}")
            # any one-character separator: the export parsed back with that delimiter has the fields of the default one
            for sep in ("\t", "|", " ", ";"):
                try:
                    alt = list(csv.reader(io.StringIO(solution.to_csv(separator=sep)), delimiter=sep))
                except Exception as e:  # noqa: BLE001
                    diffs.append(f"to_csv(separator={sep!r}) raised {type(e).__name__}: {e}")
                    continue
                if alt != rd:
                    diffs.append(f"to_csv(separator={sep!r}) read back with that delimiter differs from the default export: "
                                 f"{alt[:2]} vs {rd[:2]}")
                    break
            fn = os.path.join(tmp, "x.csv")
            solution.to_csv(csv_filename=fn, separator=";")
            if open(fn).read().replace(";", ",") != text.replace(";", ",") and not any("," in str(t.assigned_resources) for t in solution.tasks.values()):
                diffs.append("csv file differs from csv string")
        if "json" in what:
            js = json.loads(solution.to_json())
            n += 1
            for nm, t in solution.tasks.items():
                jt = js["tasks"][nm]
                if (jt["start"], jt["end"], jt["duration"], jt["scheduled"], jt["assigned_resources"]) != \
                        (t.start, t.end, t.duration, t.scheduled, t.assigned_resources):
                    diffs.append(f"json task {nm}: {jt}")
            for nm, r in solution.resources.items():
                if [tuple(a) for a in js["resources"][nm]["assignments"]] != [tuple(a) for a in r.assignments]:
                    diffs.append(f"json resource {nm}")
            for nm, b in solution.buffers.items():
                if js["buffers"][nm]["level"] != b.level or js["buffers"][nm]["level_change_times"] != b.level_change_times:
                    diffs.append(f"json buffer {nm}")
            if js["indicators"] != solution.indicators or js["horizon"] != solution.horizon:
                diffs.append("json indicators / horizon")
            # definitions of the tasks and cost functions survive a JSON round trip
            from harness import jsonrt
            rt = jsonrt.round_trip_tasks(real.problem) + jsonrt.round_trip_costs(real.problem)
            n += 1
            if stats is not None:
                stats["out_json_round_trips"] = stats.get("out_json_round_trips", 0) + len(real.problem.tasks) + len(real.problem.workers)
            diffs += rt[:3]
        if "excel" in what and beyond_xlsx_columns(solution):
            # the xlsx format has 16 384 columns: later instants cannot be written (xlsxwriter ignores them)
            if stats is not None:
                stats["out_excel_skipped_beyond_xlsx_columns"] = stats.get("out_excel_skipped_beyond_xlsx_columns", 0) + 1
        elif "excel" in what and overlapping_assignments(solution):
            if stats is not None:
                stats["out_excel_skipped_known_F38_region"] = stats.get("out_excel_skipped_known_F38_region", 0) + 1
        elif "excel" in what:
            fn = os.path.join(tmp, "x.xlsx")
            try:
                solution.to_excel_file(fn, colors=rng.random() < 0.5)
                real_x = read_xlsx(fn)
                mod_x = model_excel(cells_m)
                n += sum(len(v[0]) for v in real_x.values())
                for sh in set(real_x) | set(mod_x):
                    a = real_x.get(sh, ({}, []))
                    b_ = mod_x.get(sh, ({}, []))
                    if a != b_:
                        ka = {k: v for k, v in a[0].items() if b_[0].get(k) != v}
                        kb = {k: v for k, v in b_[0].items() if a[0].get(k) != v}
                        diffs.append(f"excel sheet {sh}: real-only {dict(list(ka.items())[:3])} model-only {dict(list(kb.items())[:3])} "
                                     f"merges real {a[1][:3]} model {b_[1][:3]}")
            except Exception as e:  # noqa: BLE001
                diffs.append(f"to_excel_file raised {type(e).__name__}: {e}")
        if "gantt" in what:
            for mode in ("Task", "Resource"):
                try:
                    labels, bars, steps = gantt_real(solution, mode)
                except Exception as e:  # noqa: BLE001
                    diffs.append(f"render_gantt_matplotlib({mode}) raised {type(e).__name__}: {e}")
                    continue
                lo, hi = XLIM.get("last", (None, None))
                # (a zero-length item is a marker centred on its instant: half of it may lie beyond an end of the axis)
                cut = [b for b in bars if lo is not None and b[2] > 2 and
                       (b[1] < round(lo * 20) or b[1] + b[2] > round(hi * 20))]
                if cut:
                    diffs.append(f"gantt {mode}: bar {cut[0]} (row, x*20, width*20, label, label x*20) lies outside the visible "
                                 f"x range [{lo}, {hi}]: it is not drawn from its start to its end")
                key = "mode task" if mode == "Task" else "mode resource"
                i0 = lines.index(key)
                seg = []
                for l in lines[i0 + 1:]:
                    if l.startswith("mode ") or l.startswith("step "):
                        break
                    seg.append(l)
                lab_m = [sem.tokenize_quoted(l)[1] for l in seg if l.startswith("ylabel ")]
                bars_m = []
                for l in seg:
                    if l.startswith("bar "):
                        p = sem.tokenize_quoted(l)
                        bars_m.append((int(p[1]), int(p[2]), int(p[3]), p[4], int(p[5])))
                n += len(bars)
                if labels != lab_m:
                    diffs.append(f"gantt {mode} row labels real={labels} model={lab_m}")
                if sorted(bars) != sorted(bars_m):
                    diffs.append(f"gantt {mode} bars real={sorted(bars)[:4]} model={sorted(bars_m)[:4]}")
                if mode == "Task":
                    steps_m = []
                    for l in lines:
                        if l.startswith("step "):
                            p = sem.tokenize_quoted(l)
                            steps_m.append((p[1], int(p[2]), int(p[3]), int(p[4])))
                    if sorted(steps) != sorted(steps_m):
                        diffs.append(f"gantt buffer steps real={sorted(steps)[:4]} model={sorted(steps_m)[:4]}")
    finally:
        shutil.rmtree(tmp, ignore_errors=True)
        plt.close("all")
    return diffs, n


def smt_roundtrip(solver, base=None, solution=None):
    """the SMT-LIB export parses and denotes the constraint system of the problem: the assertions of the freshly initialised
    solver (`base`), also when the export is written after a search has run on the same solver object; the schedule
    the search returned is a model of it"""
    tmp = tempfile.mkdtemp(prefix="pssmt_")
    try:
        fn = os.path.join(tmp, "p.smt2")
        with smrun.silent():
            solver.export_to_smt2(fn)
        text = open(fn).read()
        try:
            parsed = z3.parse_smt2_string(text)
        except Exception as e:  # noqa: BLE001
            return [f"exported SMT-LIB does not parse: {e}"], 0
        ref = base if base is not None else list(solver._solver.assertions())
        a = z3walk.canon(sorted(z3walk.sx(x) for x in parsed))
        b_ = z3walk.canon(sorted(z3walk.sx(x) for x in ref))
        if a != b_:
            # z3 may split / merge top-level conjunctions; fall back to logical equivalence
            s1 = z3.Solver(); s1.set("timeout", 10000)
            s1.add(list(parsed)); s1.add(z3.Not(z3.And(list(ref))))
            s2 = z3.Solver(); s2.set("timeout", 10000)
            s2.add(list(ref)); s2.add(z3.Not(z3.And(list(parsed))))
            if s1.check() == z3.sat or s2.check() == z3.sat:
                return [f"SMT-LIB export written after solve() denotes a different constraint system than the problem "
                        f"({len(a)} exported vs {len(b_)} assertions of the freshly initialised solver)"], len(a)
        if solution and solver._model is not None:
            for x in parsed:
                v = solver._model.eval(x, model_completion=True)
                if z3.is_false(v):
                    return [f"the schedule solve() returned is not a model of the SMT-LIB export written afterwards: "
                            f"{str(x)[:160]} is false"], len(a)
        return [], len(a)
    finally:
        shutil.rmtree(tmp, ignore_errors=True)
