"""SM channel: the real SchedulingSolver is run behind a recording proxy of the z3 module whose
solver objects answer check() from a script (sat with prescribed values / unsat / unknown) and
whose clock advances by prescribed durations.  The Lean model (PS/Model/Solver.lean) predicts
the same trace of calls from the same answers."""
import types
import warnings

import z3

import processscheduler as ps
import processscheduler.solver as ps_solver

from harness import pslib, z3walk
from harness.pslib import q


class FakeVal:
    def __init__(self, v):
        self.v = v

    def as_long(self):
        return int(self.v)

    def __str__(self):
        return str(self.v)

    __repr__ = __str__


class FakeModel:
    def __init__(self, values):
        self.values = values

    def __getitem__(self, var):
        name = var.decl().name() if hasattr(var, "decl") else str(var)
        if name in self.values:
            return FakeVal(self.values[name])
        if z3.is_bool(var):
            return FakeVal(False)
        return FakeVal(0)

    def decls(self):
        return []


class Recorder:
    def __init__(self, answers):
        self.answers = list(answers)
        self.events = []
        self.now = 0.0

    def log(self, e):
        self.events.append(e)

    def perf_counter(self):
        return self.now


class FakeSolver:
    def __init__(self, rec, kind):
        self.rec = rec
        self.kind = kind
        self.stack = [[]]
        self.last_model = None
        rec.log(f"new {kind}")

    # -- assertions
    def _add(self, f):
        self.stack[-1].append(f)
        self.rec.log("add " + z3walk.sx(f))

    def add(self, *args):
        for a in args:
            if isinstance(a, (list, tuple)):
                for x in a:
                    self._add(x)
            else:
                self._add(a)

    def assert_and_track(self, a, p):
        self._add(a)

    def assertions(self):
        return [f for fr in self.stack for f in fr]

    def push(self):
        self.stack.append([])
        self.rec.log("push")

    def pop(self):
        self.stack.pop()
        self.rec.log("pop")

    def num_scopes(self):
        return len(self.stack) - 1

    def set(self, *a, **k):
        pass

    def minimize(self, t):
        self.rec.log("minimize " + z3walk.sx(t))

    def maximize(self, t):
        self.rec.log("maximize " + z3walk.sx(t))

    def check(self):
        if not self.rec.answers:
            self.rec.log("check unknown")
            return z3.unknown
        a = self.rec.answers.pop(0)
        self.rec.now += a[1]
        self.rec.log("check " + a[0])
        if a[0] == "sat":
            self.last_model = FakeModel(a[2])
            return z3.sat
        return z3.unsat if a[0] == "unsat" else z3.unknown

    def model(self):
        self.rec.log("model")
        return self.last_model

    def reason_unknown(self):
        return "scripted"

    def unsat_core(self):
        self.rec.log("unsat_core")
        return []

    def statistics(self):
        return []

    def to_smt2(self):
        self.rec.log("export")
        return ""

    def sexpr(self):
        self.rec.log("export")
        return ""


class Z3Proxy(types.ModuleType):
    def __init__(self, rec):
        super().__init__("z3proxy")
        self._rec = rec

    def __getattr__(self, n):
        if n == "Solver":
            return lambda *a, **k: FakeSolver(self._rec, "Solver")
        if n == "SolverFor":
            return lambda logic, *a, **k: FakeSolver(self._rec, f"SolverFor:{logic}")
        if n == "Optimize":
            if "_opt_cls" in self.__dict__:
                return self.__dict__["_opt_cls"]
            rec = self._rec

            class _Opt(FakeSolver):
                def __init__(s):
                    FakeSolver.__init__(s, rec, "Optimize")

                def set(s, *a, **k):
                    if "priority" in k:
                        rec.events[-1] = f"new Optimize:{k['priority']}"
            self.__dict__["_opt_cls"] = _Opt
            return _Opt
        return getattr(z3, n)


class TimeProxy:
    def __init__(self, rec):
        self.rec = rec

    def perf_counter(self):
        return self.rec.now


def collapse(events):
    """the adds made by initialize() (between `new` and the `init-done` marker) collapse to a count;
    minimize / maximize calls made there are kept"""
    out = []
    i = 0
    while i < len(events):
        e = events[i]
        i += 1
        if e == "init-done":
            continue
        out.append(e)
        if e.startswith("new "):
            n = 0
            kept = []
            while i < len(events) and events[i] != "init-done":
                if events[i].startswith("add "):
                    n += 1
                else:
                    kept.append(events[i])
                i += 1
            out.append(f"init-add {n}")
            out += kept
    return out


def run_real(real, cfg, ops, answers):
    """execute the public calls on the real solver behind the proxies; returns the trace"""
    rec = Recorder(answers)
    old_z3, old_time = ps_solver.z3, ps_solver.time
    # isinstance(self._solver, z3.Optimize) must keep working with the fake class
    proxy = Z3Proxy(rec)
    ps_solver.z3 = proxy
    ps_solver.time = TimeProxy(rec)
    orig_init = ps_solver.SchedulingSolver.initialize

    def marked_initialize(self):
        try:
            return orig_init(self)
        finally:
            if self.debug:
                rec.log(f"tracked-owners {len(self._map_boolrefs_to_constraints)}")
            rec.log("init-done")
    ps_solver.SchedulingSolver.initialize = marked_initialize
    try:
        with pslib.quiet(), warnings.catch_warnings():
            warnings.simplefilter("ignore")
            kw = dict(debug=cfg.get("debug", False), optimizer=cfg.get("optimizer", "incremental"),
                      optimize_priority=cfg.get("optimize_priority", "pareto"), max_time=cfg.get("max_time", 20))
            if cfg.get("max_iter") is not None:
                kw["max_iter"] = cfg["max_iter"]
            if cfg.get("logics") is not None:
                kw["logics"] = cfg["logics"]
            s = ps.SchedulingSolver(problem=real.problem, **kw)
            for op in ops:
                try:
                    if op == "initialize":
                        s.initialize()
                    elif op == "solve":
                        r = s.solve()
                        rec.log("return " + ("solution" if r else "False"))
                    elif op == "findAnother":
                        r = s.find_another_solution()
                        rec.log("return " + ("solution" if r else "False"))
                    elif op == "export":
                        s.export_to_smt2("/dev/null")
                    elif op[0] == "findAnotherVar":
                        r = s.find_another_solution_for_variable(z3.Int(op[1]))
                        rec.log("return " + ("solution" if r else "False"))
                except Exception as e:  # noqa: BLE001
                    rec.log("raise " + type(e).__name__)
    finally:
        ps_solver.z3, ps_solver.time = old_z3, old_time
        ps_solver.SchedulingSolver.initialize = orig_init
    return collapse(rec.events)


def ivar_sx(name, real):
    """protocol form of an integer variable given by its z3 name"""
    if name == "horizon":
        return "(horizon)"
    for t in real.tasks:
        if name == f"{t}_start":
            return f"(tstart {q(t)})"
        if name == f"{t}_end":
            return f"(tend {q(t)})"
    if name.startswith("Indicator_"):
        return f"(ind {q(name[len('Indicator_'):])})"
    return f"(named {q(name)})"


def lean_line(real, cfg, ops, answers):
    c = [f"(debug {pslib.b(cfg.get('debug', False))})",
         f"(optimize {pslib.b(cfg.get('optimizer', 'incremental') == 'optimize')})",
         f"(priority {cfg.get('optimize_priority', 'pareto')})",
         f"(logics {cfg.get('logics') or 'none'})",
         f"(max_time {int(cfg.get('max_time', 20))})"]
    if cfg.get("max_iter") is not None:
        c.append(f"(max_iter {cfg['max_iter']})")
    o = []
    for op in ops:
        o.append(op if isinstance(op, str) else f"(findAnotherVar {ivar_sx(op[1], real)})")
    a = []
    for ans in answers:
        if ans[0] == "sat":
            vals = " ".join(f"({q(k)} {pslib.b(v) if isinstance(v, bool) else v})" for k, v in ans[2].items())
            a.append(f"(sat {ans[1]} ({vals}))")
        else:
            a.append(f"({ans[0]} {ans[1]})")
    return f"(solver ({' '.join(c)}) ({' '.join(o)}) ({' '.join(a)}))"


def run_model(driver, real, cfg, ops, answers):
    _, lines = driver.send_multi(lean_line(real, cfg, ops, answers))
    return lines


def canon_trace(tr):
    return z3walk.canon(tr)
