"""Declarations beyond the core: constraints, buffers (indicators / objectives in pslib_ind)."""
import z3
import processscheduler as ps

from harness.pslib import q, opt, b, lst


# ------------------------------------------------------------------ raw expressions
# A tiny expression AST shared by both interpreters:
#   terms : int | ("tstart", T) | ("tend", T) | ("tdur", T) | ("horizon",) | ("+", a, b) | ("-", a, b) | ("*", a, b)
#   fmls  : True | False | ("sched", T) | ("not", f) | ("and", f..) | ("or", f..) | ("<=", a, b) | ("<", ..) | (">=", ..)
#           | (">", ..) | ("=", ..) | ("!=", ..)
def term_sx(t):
    if isinstance(t, int):
        return str(t)
    k = t[0]
    if k in ("tstart", "tend", "tdur"):
        return f"(var ({k} {q(t[1])}))"
    if k == "horizon":
        return "(var (horizon))"
    return f"({k} {term_sx(t[1])} {term_sx(t[2])})"


def fml_sx(f):
    if f is True:
        return "true"
    if f is False:
        return "false"
    k = f[0]
    if k == "sched":
        return f"(bvar (sched {q(f[1])}))"
    if k == "not":
        return f"(not {fml_sx(f[1])})"
    if k in ("and", "or"):
        return "(" + " ".join([k] + [fml_sx(x) for x in f[1:]]) + ")"
    return f"({k} {term_sx(f[1])} {term_sx(f[2])})"


def term_z3(real, t):
    if isinstance(t, int):
        return z3.IntVal(t)       # never let Python fold or reflect integer sub-expressions
    k = t[0]
    if k == "tstart":
        return real.tasks[t[1]]._start
    if k == "tend":
        return real.tasks[t[1]]._end
    if k == "tdur":
        return real.tasks[t[1]]._duration
    if k == "horizon":
        return real.problem._horizon
    a, c = term_z3(real, t[1]), term_z3(real, t[2])
    return {"+": lambda: a + c, "-": lambda: a - c, "*": lambda: a * c}[k]()


def fml_z3(real, f):
    if f is True or f is False:
        return z3.BoolVal(f)
    k = f[0]
    if k == "sched":
        return real.tasks[f[1]]._scheduled
    if k == "not":
        return z3.Not(fml_z3(real, f[1]))
    if k == "and":
        return z3.And([fml_z3(real, x) for x in f[1:]])
    if k == "or":
        return z3.Or([fml_z3(real, x) for x in f[1:]])
    a, c = term_z3(real, f[1]), term_z3(real, f[2])
    if isinstance(f[2], int):
        c = f[2]              # a z3 numeral on the right would be reflected too (IntNumRef subclasses ArithRef)
    return {"<=": lambda: a <= c, "<": lambda: a < c, ">=": lambda: a >= c, ">": lambda: a > c,
            "=": lambda: a == c, "!=": lambda: a != c}[k]()


# ------------------------------------------------------------------ constraint bodies
def operand_sx(o):
    return f"(ref {o[1]})" if o[0] == "ref" else f"(raw {fml_sx(o[1])})"


def pair(p):
    return f"({p[0]} {p[1]})"


def cbody_sx(c):
    k = c[0]
    if k in ("startAt", "endAt"):
        return f"({k} {q(c[1])} {c[2]})"
    if k in ("startAfter", "endBefore"):
        return f"({k} {q(c[1])} {c[2]} {b(c[3])})"
    if k == "precedence":
        return f"(precedence {q(c[1])} {q(c[2])} {c[3]} {c[4]})"
    if k in ("startSynced", "endSynced", "dontOverlap", "dependency"):
        return f"({k} {q(c[1])} {q(c[2])})"
    if k == "contiguous":
        return f"(contiguous {lst(c[1], q)})"
    if k == "unorderedGroup":
        return f"(unorderedGroup {lst(c[1], q)} {opt(c[2], pair)} {c[3]})"
    if k == "orderedGroup":
        return f"(orderedGroup {lst(c[1], q)} {opt(c[2], pair)} {c[3]} {c[4]})"
    if k == "scheduleN":
        return f"(scheduleN {lst(c[1], q)} {c[2]} {lst(c[3], pair)} {c[4]})"
    if k == "forceSchedule":
        return f"(forceSchedule {q(c[1])} {b(c[2])})"
    if k == "conditionSchedule":
        return f"(conditionSchedule {q(c[1])} {fml_sx(c[2])})"
    if k == "forceScheduleN":
        return f"(forceScheduleN {lst(c[1], q)} {c[2]} {c[3]})"
    if k == "fromExpr":
        return f"(fromExpr {fml_sx(c[1])})"
    if k == "forceApplyN":
        return f"(forceApplyN {lst(c[1])} {c[2]} {c[3]})"
    if k == "not":
        return f"(not {operand_sx(c[1])})"
    if k in ("or", "and"):
        return f"({k} {lst(c[1], operand_sx)})"
    if k == "xor":
        return f"(xor {operand_sx(c[1])} {operand_sx(c[2])})"
    if k == "implies":
        return f"(implies {fml_sx(c[1])} {lst(c[2], operand_sx)})"
    if k == "ifThenElse":
        return f"(ifThenElse {fml_sx(c[1])} {lst(c[2], operand_sx)} {lst(c[3], operand_sx)})"
    if k == "unavailable":
        return f"(unavailable {q(c[1])} {lst(c[2], pair)})"
    if k == "workload":
        return f"(workload {q(c[1])} {lst(c[2], lambda t: f'({t[0]} {t[1]} {t[2]})')} {c[3]})"
    if k == "nonDelay":
        return f"(nonDelay {q(c[1])})"
    if k == "distance":
        return f"(distance {q(c[1])} {c[2]} {opt(c[3], lambda l: lst(l, pair))} {c[4]})"
    if k == "interrupted":
        return f"(interrupted {q(c[1])} {lst(c[2], pair)})"
    if k == "periodicallyUnavailable":
        return f"(periodicallyUnavailable {q(c[1])} {lst(c[2], pair)} {c[3]} {c[4]} {c[5]} {opt(c[6])})"
    if k == "periodicallyInterrupted":
        return f"(periodicallyInterrupted {q(c[1])} {lst(c[2], pair)} {c[3]} {c[4]} {c[5]} {opt(c[6])})"
    if k in ("sameWorkers", "distinctWorkers"):
        return f"({k} {c[1]} {c[2]})"
    if k in ("unloadBuffer", "loadBuffer"):
        return f"({k} {q(c[1])} {q(c[2])} {c[3]})"
    if k == "indicatorTarget":
        return f"(indicatorTarget {c[1]} {c[2]})"
    if k == "indicatorBounds":
        return f"(indicatorBounds {c[1]} {opt(c[2])} {opt(c[3])})"
    raise ValueError(k)


def to_line(d):
    op = d["op"]
    if op == "constraint":
        return f"(constraint {opt(d.get('name'), q)} {b(d.get('optional', False))} {cbody_sx(d['c'])})"
    if op == "buffer":
        return (f"(buffer {q(d['name'])} {b(d.get('concurrent', False))} {opt(d.get('initial'))} "
                f"{opt(d.get('final'))} {opt(d.get('lb'))} {opt(d.get('ub'))})")
    from harness import pslib_ind
    return pslib_ind.to_line(d)


def resource_named(real, n):
    return real.workers[n] if n in real.workers else real.cumuls[n]


def cond_obj(real, f):
    """a condition: a literal True / False is handed over as the Python bool it is (the field type allows it)"""
    return f if (f is True or f is False) else fml_z3(real, f)


def operand_obj(real, o):
    return real.constraint_by_id(o[1]) if o[0] == "ref" else fml_z3(real, o[1])


def make_constraint(real, c, kw):
    k = c[0]
    T = real.tasks
    if k == "startAt":
        return ps.TaskStartAt(task=T[c[1]], value=c[2], **kw)
    if k == "startAfter":
        return ps.TaskStartAfter(task=T[c[1]], value=c[2], kind="strict" if c[3] else "lax", **kw)
    if k == "endAt":
        return ps.TaskEndAt(task=T[c[1]], value=c[2], **kw)
    if k == "endBefore":
        return ps.TaskEndBefore(task=T[c[1]], value=c[2], kind="strict" if c[3] else "lax", **kw)
    if k == "precedence":
        return ps.TaskPrecedence(task_before=T[c[1]], task_after=T[c[2]], offset=c[3], kind=c[4], **kw)
    if k == "startSynced":
        return ps.TasksStartSynced(task_1=T[c[1]], task_2=T[c[2]], **kw)
    if k == "endSynced":
        return ps.TasksEndSynced(task_1=T[c[1]], task_2=T[c[2]], **kw)
    if k == "dontOverlap":
        return ps.TasksDontOverlap(task_1=T[c[1]], task_2=T[c[2]], **kw)
    if k == "contiguous":
        return ps.TasksContiguous(list_of_tasks=[T[t] for t in c[1]], **kw)
    if k == "unorderedGroup":
        extra = {"time_interval": tuple(c[2])} if c[2] is not None else {}
        return ps.UnorderedTaskGroup(list_of_tasks=[T[t] for t in c[1]], time_interval_length=c[3], **extra, **kw)
    if k == "orderedGroup":
        extra = {"time_interval": tuple(c[2])} if c[2] is not None else {}
        return ps.OrderedTaskGroup(list_of_tasks=[T[t] for t in c[1]], time_interval_length=c[3], kind=c[4],
                                   **extra, **kw)
    if k == "scheduleN":
        return ps.ScheduleNTasksInTimeIntervals(list_of_tasks=[T[t] for t in c[1]], nb_tasks_to_schedule=c[2],
                                                list_of_time_intervals=[tuple(p) for p in c[3]], kind=c[4], **kw)
    if k == "forceSchedule":
        return ps.OptionalTaskForceSchedule(task=T[c[1]], to_be_scheduled=c[2], **kw)
    if k == "conditionSchedule":
        return ps.OptionalTaskConditionSchedule(task=T[c[1]], condition=fml_z3(real, c[2]), **kw)
    if k == "dependency":
        return ps.OptionalTasksDependency(task_1=T[c[1]], task_2=T[c[2]], **kw)
    if k == "forceScheduleN":
        return ps.ForceScheduleNOptionalTasks(list_of_optional_tasks=[T[t] for t in c[1]],
                                              nb_tasks_to_schedule=c[2], kind=c[3], **kw)
    if k == "fromExpr":
        return ps.ConstraintFromExpression(expression=fml_z3(real, c[1]), **kw)
    if k == "forceApplyN":
        return ps.ForceApplyNOptionalConstraints(
            list_of_optional_constraints=[real.constraint_by_id(i) for i in c[1]],
            nb_constraints_to_apply=c[2], kind=c[3], **kw)
    if k == "not":
        return ps.Not(constraint=operand_obj(real, c[1]), **kw)
    if k == "or":
        return ps.Or(list_of_constraints=[operand_obj(real, o) for o in c[1]], **kw)
    if k == "and":
        return ps.And(list_of_constraints=[operand_obj(real, o) for o in c[1]], **kw)
    if k == "xor":
        return ps.Xor(constraint_1=operand_obj(real, c[1]), constraint_2=operand_obj(real, c[2]), **kw)
    if k == "implies":
        return ps.Implies(condition=cond_obj(real, c[1]), list_of_constraints=[operand_obj(real, o) for o in c[2]], **kw)
    if k == "ifThenElse":
        return ps.IfThenElse(condition=cond_obj(real, c[1]),
                             then_list_of_constraints=[operand_obj(real, o) for o in c[2]],
                             else_list_of_constraints=[operand_obj(real, o) for o in c[3]], **kw)
    if k == "unavailable":
        return ps.ResourceUnavailable(resource=resource_named(real, c[1]),
                                      list_of_time_intervals=[tuple(p) for p in c[2]], **kw)
    if k == "workload":
        return ps.WorkLoad(resource=resource_named(real, c[1]),
                           dict_time_intervals_and_bound={(t[0], t[1]): t[2] for t in c[2]}, kind=c[3], **kw)
    if k == "nonDelay":
        return ps.ResourceNonDelay(resource=resource_named(real, c[1]), **kw)
    if k == "distance":
        extra = {"list_of_time_intervals": [tuple(p) for p in c[3]]} if c[3] is not None else {}
        return ps.ResourceTasksDistance(resource=resource_named(real, c[1]), distance=c[2], mode=c[4], **extra, **kw)
    if k == "interrupted":
        return ps.ResourceInterrupted(resource=resource_named(real, c[1]),
                                      list_of_time_intervals=[tuple(p) for p in c[2]], **kw)
    if k == "periodicallyUnavailable":
        extra = {"end": c[6]} if c[6] is not None else {}
        return ps.ResourcePeriodicallyUnavailable(resource=resource_named(real, c[1]),
                                                  list_of_time_intervals=[tuple(p) for p in c[2]], period=c[3],
                                                  start=c[4], offset=c[5], **extra, **kw)
    if k == "periodicallyInterrupted":
        extra = {"end": c[6]} if c[6] is not None else {}
        return ps.ResourcePeriodicallyInterrupted(resource=resource_named(real, c[1]),
                                                  list_of_time_intervals=[tuple(p) for p in c[2]], period=c[3],
                                                  start=c[4], offset=c[5], **extra, **kw)
    if k == "sameWorkers":
        s = real.selects()
        return ps.SameWorkers(select_workers_1=s[c[1]], select_workers_2=s[c[2]], **kw)
    if k == "distinctWorkers":
        s = real.selects()
        return ps.DistinctWorkers(select_workers_1=s[c[1]], select_workers_2=s[c[2]], **kw)
    if k == "unloadBuffer":
        return ps.TaskUnloadBuffer(task=T[c[1]], buffer=real.buffers[c[2]], quantity=c[3], **kw)
    if k == "loadBuffer":
        return ps.TaskLoadBuffer(task=T[c[1]], buffer=real.buffers[c[2]], quantity=c[3], **kw)
    if k == "indicatorTarget":
        return ps.IndicatorTarget(indicator=real.indicators[c[1]], value=c[2], **kw)
    if k == "indicatorBounds":
        extra = {}
        if c[2] is not None:
            extra["lower_bound"] = c[2]
        if c[3] is not None:
            extra["upper_bound"] = c[3]
        return ps.IndicatorBounds(indicator=real.indicators[c[1]], **extra, **kw)
    raise ValueError(k)


def do(real, d):
    op = d["op"]
    if op == "constraint":
        kw = {"optional": d.get("optional", False)}
        if d.get("name") is not None:
            kw["name"] = d["name"]
        make_constraint(real, d["c"], kw)
    elif op == "buffer":
        cls = ps.ConcurrentBuffer if d.get("concurrent", False) else ps.NonConcurrentBuffer
        kw = {k2: d.get(k1) for k1, k2 in (("initial", "initial_level"), ("final", "final_level"),
                                           ("lb", "lower_bound"), ("ub", "upper_bound")) if d.get(k1) is not None}
        real.buffers[d["name"]] = cls(name=d["name"], **kw)
    else:
        from harness import pslib_ind
        pslib_ind.do(real, d)
