"""SEM: semantic search for a failing input.

The Lean driver prints the documented meaning of a property as formulas over the primary
variables (PS/Spec/Twins.lean).  Here they are parsed back into z3 and conjoined, negated,
with the assertions of the REAL library: a model is a concrete schedule that the real code
admits and that violates the property.  Support for the violation search; not a proof."""
import re
import z3


def tokenize(s):
    return re.findall(r"\(|\)|[^\s()]+", s)


def tokenize_quoted(line):
    """split a protocol output line into tokens, honouring double-quoted strings"""
    out, i, n = [], 0, len(line)
    while i < n:
        c = line[i]
        if c.isspace():
            i += 1
        elif c == '"':
            j = i + 1
            buf = []
            while j < n and line[j] != '"':
                if line[j] == "\\" and j + 1 < n:
                    j += 1
                buf.append(line[j])
                j += 1
            out.append("".join(buf))
            i = j + 1
        else:
            j = i
            while j < n and not line[j].isspace():
                j += 1
            out.append(line[i:j])
            i = j
    return out


def parse_sexp(s):
    toks = tokenize(s)
    pos = 0

    def rd():
        nonlocal pos
        t = toks[pos]
        pos += 1
        if t == "(":
            l = []
            while toks[pos] != ")":
                l.append(rd())
            pos += 1
            return l
        return t

    return rd()


INT_RE = re.compile(r"^-?[0-9]+$")


class Builder:
    """typed reconstruction of printed formulas as z3 expressions"""

    def __init__(self, sorts=None, subst=None):
        self.sorts = sorts or {}       # name -> "Int" | "Bool"
        self.subst = subst or {}       # %token% -> real text

    def name(self, n):
        for k, v in self.subst.items():
            if k in n:
                n = n.replace(k, v)
        return n

    def is_bool_atom(self, a):
        if a in ("true", "false"):
            return True
        n = self.name(a)
        if n in self.sorts:
            return self.sorts[n] == "Bool"
        return n.endswith("_scheduled") or n.startswith("Selected_") or n.endswith("_applied") \
            or n.startswith("InTimeIntervalTask_") or n.startswith("asst_")

    def is_bool(self, x):
        if isinstance(x, str):
            return self.is_bool_atom(x)
        h = x[0]
        if h in ("and", "or", "not", "=>", "xor", "<=", "<", ">=", ">", "=", "distinct", "at-most", "at-least",
                 "pbeq", "forall"):
            return True
        if h == "if":
            return self.is_bool(x[2])
        return False

    def term(self, x):
        if isinstance(x, str):
            if INT_RE.match(x):
                return z3.IntVal(int(x))
            return z3.Int(self.name(x))
        h = x[0]
        a = x[1:]
        if h == "+":
            ts = [self.term(t) for t in a]
            return z3.Sum(ts) if len(ts) != 2 else ts[0] + ts[1]
        if h == "-":
            return -self.term(a[0]) if len(a) == 1 else self.term(a[0]) - self.term(a[1])
        if h == "*":
            return self.term(a[0]) * self.term(a[1])
        if h == "div":
            return self.term(a[0]) / self.term(a[1])
        if h == "mod":
            return self.term(a[0]) % self.term(a[1])
        if h == "if":
            return z3.If(self.fml(a[0]), self.term(a[1]), self.term(a[2]))
        if h == "to_real":
            return self.term(a[0])
        if h == "real":
            return z3.IntVal(0)
        if h == "select":
            return z3.Select(z3.Array(self.name(a[0]), z3.IntSort(), z3.IntSort()), self.term(a[1]))
        # uninterpreted function application
        f = z3.Function(self.name(h), z3.IntSort(), z3.IntSort())
        return f(self.term(a[0]))

    def fml(self, x):
        if isinstance(x, str):
            if x == "true":
                return z3.BoolVal(True)
            if x == "false":
                return z3.BoolVal(False)
            if x == "and":
                return z3.BoolVal(True)
            if x == "or":
                return z3.BoolVal(False)
            return z3.Bool(self.name(x))
        h = x[0]
        a = x[1:]
        if h == "and":
            return z3.And([self.fml(t) for t in a])
        if h == "or":
            return z3.Or([self.fml(t) for t in a])
        if h == "not":
            return z3.Not(self.fml(a[0]))
        if h == "=>":
            return z3.Implies(self.fml(a[0]), self.fml(a[1]))
        if h == "xor":
            return z3.Xor(self.fml(a[0]), self.fml(a[1]))
        if h == "if":
            return z3.If(self.fml(a[0]), self.fml(a[1]), self.fml(a[2]))
        if h in ("=", "distinct"):
            if self.is_bool(a[0]) or self.is_bool(a[1]):
                l, r = self.fml(a[0]), self.fml(a[1])
            else:
                l, r = self.term(a[0]), self.term(a[1])
            return l == r if h == "=" else l != r
        if h in ("<=", "<", ">=", ">"):
            l, r = self.term(a[0]), self.term(a[1])
            return {"<=": l <= r, "<": l < r, ">=": l >= r, ">": l > r}[h]
        if h in ("at-most", "at-least", "pbeq"):
            k = int(a[0].strip("[]"))
            rest = [t for t in a[1:] if not (isinstance(t, str) and t.startswith("["))]
            args = [(self.fml(t), 1) for t in rest]
            if not args:
                return z3.BoolVal({"at-most": 0 <= k, "at-least": k <= 0, "pbeq": k == 0}[h])
            return {"at-most": z3.PbLe, "at-least": z3.PbGe, "pbeq": z3.PbEq}[h](args, k)
        raise ValueError(f"cannot rebuild {x}")


def sorts_of(assertions):
    """name -> sort of every uninterpreted constant in the real assertions"""
    out = {}
    seen = set()

    def walk(e):
        if e.get_id() in seen:
            return
        seen.add(e.get_id())
        if z3.is_quantifier(e):
            walk(e.body())
            return
        if z3.is_app(e):
            if e.num_args() == 0 and e.decl().kind() == z3.Z3_OP_UNINTERPRETED:
                out[e.decl().name()] = str(e.sort())
            for c in e.children():
                walk(c)

    for a in assertions:
        walk(a)
    return out


def find_counterexample(real_assertions, spec_lines, subst, timeout_ms=20000):
    """a model of the real assertions falsifying the conjunction of the spec formulas, or None.
    Returns (status, model_dict) with status in {"none", "found", "unknown"}."""
    b = Builder(sorts_of(real_assertions), subst)
    spec = [b.fml(parse_sexp(l)) for l in spec_lines]
    if not spec:
        return "none", None
    s = z3.Solver()
    s.set("timeout", timeout_ms)
    s.add(real_assertions)
    s.add(z3.Not(z3.And(spec)))
    r = s.check()
    if r == z3.sat:
        m = s.model()
        vals = {}
        for d in m.decls():
            if d.arity() == 0:
                vals[d.name()] = str(m[d])
        # which clause fails
        failing = [spec_lines[i] for i, f in enumerate(spec) if z3.is_false(m.eval(f, model_completion=True))]
        return "found", {"model": vals, "failing_clauses": failing[:5]}
    if r == z3.unknown:
        return "unknown", None
    return "none", None


def equivalence(real_assertions, lean_lines, subst, timeout_ms=20000):
    """compare the conjunction of the real assertions with the conjunction of the model's
    (rebuilt from the Lean printout, uuid-named variables aligned by `subst`).
    Returns (verdict, witness): verdict in
      "equivalent"      – both implications are valid (a harmless rewrite)
      "real_admits_more"– witness satisfies the real assertions but not the model's
      "real_admits_less"– witness satisfies the model's assertions but not the real ones
      "unknown"         – z3 gave up (quantifiers, timeout)"""
    b = Builder(sorts_of(real_assertions), subst)
    try:
        model_fs = [b.fml(parse_sexp(l)) for l in lean_lines]
    except Exception as e:  # noqa: BLE001
        return "unknown", {"error": f"{type(e).__name__}: {e}"}
    if any(z3.is_quantifier(a) for a in real_assertions) or any("forall" in l for l in lean_lines):
        return "unknown", {"reason": "quantified formulas"}

    def ask(pos, neg):
        s = z3.Solver()
        s.set("timeout", timeout_ms)
        s.add(pos)
        s.add(z3.Not(z3.And(neg)) if neg else z3.BoolVal(False))
        r = s.check()
        if r == z3.sat:
            m = s.model()
            return "sat", {d.name(): str(m[d]) for d in m.decls() if d.arity() == 0}
        return ("unsat" if r == z3.unsat else "unknown"), None

    def falsified(fs, vals):
        s = z3.Solver()
        consts = []
        for n, v in vals.items():
            if v in ("True", "False"):
                consts.append(z3.Bool(n) == (v == "True"))
            elif INT_RE.match(v):
                consts.append(z3.Int(n) == int(v))
        out = []
        for i, f in enumerate(fs):
            s.push()
            s.add(consts)
            s.add(f)
            if s.check() == z3.unsat:
                out.append(i)
            s.pop()
        return out

    r1, w1 = ask(list(real_assertions), model_fs)
    if r1 == "sat":
        return "real_admits_more", {"model": w1, "model_formulas_false": falsified(model_fs, w1)[:10]}
    r2, w2 = ask(model_fs, list(real_assertions))
    if r2 == "sat":
        return "real_admits_less", {"model": w2, "real_assertions_false": falsified(list(real_assertions), w2)[:10]}
    if r1 == "unsat" and r2 == "unsat":
        return "equivalent", None
    return "unknown", None
