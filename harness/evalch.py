"""EVAL channel: is `Fml.evalB` (the computable evaluator of the Lean development, which `satB_sound` relates to the
semantics `Fml.eval` every theorem is stated in) z3's semantics of the formulas the library emits?

For a script whose real and model assertion lists agree line by line (ENC quiet) and are quantifier / array free, a few
random interpretations of all the variables are drawn (integers around 0 and the horizon, negative ones included: floor
division and modulo of negative numbers, `ite`, pseudo-Boolean counts, xor are where evaluators disagree); every REAL
assertion is evaluated by z3 itself (`substitute` + `simplify`) and every MODEL formula by the driver (`evalB`); the two
truth-value vectors must be equal."""
import z3

from harness import enc, sem, z3walk


def consts_of(assertions):
    return sem.sorts_of(assertions)       # name -> "Int" | "Bool" | other


def run_eval(driver, out, rng, cfg=None, k=3):
    """out = result of enc.run_script (driver still holds the state).  Returns (diffs, n_evaluated)"""
    if out["solver"] is None or out["init_error"] or out["py"] is None or out["py"] != out["lean"]:
        return [], 0
    A = list(out["solver"]._solver.assertions())
    if any(z3.is_quantifier(a) for a in A):
        return [], 0
    sorts = consts_of(A)
    if any(srt not in ("Int", "Bool") for srt in sorts.values()):
        return [], 0                      # arrays / functions of buffers: not part of the sampled fragment
    H = out["real"].problem.horizon or 12
    inv = {v: k_ for k_, v in z3walk.token_alignment(out["py_raw"], out["lean_raw"]).items()}   # real token -> Lean token
    diffs, n = [], 0
    for _ in range(k):
        vals = {}
        for name, srt in sorts.items():
            vals[name] = (rng.random() < 0.5) if srt == "Bool" else rng.choice([-7, -3, -2, -1, 0, 0, 1, 2, 3, 5, 8, H - 1, H, H + 2])
        subs = [((z3.Bool(nm) if sorts[nm] == "Bool" else z3.Int(nm)),
                 (z3.BoolVal(v) if sorts[nm] == "Bool" else z3.IntVal(v))) for nm, v in vals.items()]
        real_bits = []
        for a in A:
            r = z3.simplify(z3.substitute(a, *subs))
            real_bits.append("1" if z3.is_true(r) else "0" if z3.is_false(r) else "?")
        if "?" in real_bits:
            continue

        def lean_name(nm):
            # unstable parts of a name (uuids, counters) are %tokens% on the Lean side
            return z3walk.UNSTABLE.sub(lambda mo: inv.get(mo.group(0), mo.group(0)), nm)
        items = " ".join(f'("{lean_name(nm)}" {("true" if v else "false") if sorts[nm] == "Bool" else v})' for nm, v in vals.items())
        head, lines = driver.send_multi(enc.lean_cfg(cfg or {}).replace("(initialize", "(eval (", 1).rstrip(")") + ")) (" + items + "))")
        if not lines:
            diffs.append(f"driver answered {head}")
            break
        lean_bits = lines[0].split()
        n += len(real_bits)
        if lean_bits != real_bits:
            bad = [i for i, (x, y) in enumerate(zip(real_bits, lean_bits)) if x != y][:3]
            diffs.append("evalB and z3 disagree on the value of " + "; ".join(
                f"{out['lean_raw'][i]} (z3: {real_bits[i]}, evalB: {lean_bits[i]})" for i in bad) + f" under {vals}")
            break
    return diffs, n
