"""JSON round trip of task and cost-function definitions (the last clause of C16).

Every task of a generated problem is serialised with `to_json()`, read back with `model_validate_json` into a fresh
problem, and compared with the original: the definition fields, and the assertions the re-created task emits (the
canonical s-expressions of `_z3_assertions`, which depend only on the definition and the task number).  Cost functions
are serialised the same way and compared pointwise (integer points and one symbolic point)."""
import json

import z3
import processscheduler as ps
import processscheduler.base

from harness import z3walk

TASK_FIELDS = ("name", "optional", "work_amount", "priority", "release_date", "due_date", "due_date_is_deadline")
KIND_FIELDS = {"FixedDurationTask": ("duration",), "ZeroDurationTask": (),
               "VariableDurationTask": ("min_duration", "max_duration", "allowed_durations")}


def task_fields(t):
    cls = type(t).__name__
    return {f: getattr(t, f) for f in TASK_FIELDS + KIND_FIELDS[cls]}


def task_assertions(t):
    return z3walk.canon([z3walk.sx(a) for a in t.get_z3_assertions()] if hasattr(t, "get_z3_assertions")
                        else [z3walk.sx(a) for a in t._z3_assertions])


def round_trip_tasks(problem):
    """returns a list of differences"""
    diffs = []
    tasks = list(problem.tasks.values())
    texts = []
    for t in tasks:
        try:
            texts.append((t, t.to_json()))
        except Exception as e:  # noqa: BLE001
            diffs.append(f"to_json of task {t.name} raised {type(e).__name__}: {e}")
    saved = processscheduler.base.active_problem
    try:
        kw = {"name": "json_round_trip"}
        if problem.horizon is not None:
            kw["horizon"] = problem.horizon
        ps.SchedulingProblem(**kw)
        for t, js in texts:
            try:
                json.loads(js)
            except Exception as e:  # noqa: BLE001
                diffs.append(f"task {t.name}: to_json is not JSON ({e})")
                continue
            try:
                t2 = type(t).model_validate_json(js)
            except Exception as e:  # noqa: BLE001
                diffs.append(f"task {t.name}: model_validate_json raised {type(e).__name__}: {str(e)[:120]}")
                continue
            a, b = task_fields(t), task_fields(t2)
            if a != b:
                diffs.append(f"task {t.name}: definition changed by the JSON round trip: " +
                             ", ".join(f"{k}: {a[k]!r} -> {b[k]!r}" for k in a if a[k] != b[k]))
        # the same definitions through the problem's own importer (`SchedulingProblem.add_from_json`), in a third problem
        kw["name"] = "json_round_trip_import"
        pb3 = ps.SchedulingProblem(**kw)
        for t, js in texts:
            try:
                t3 = pb3.add_from_json(js)
            except Exception as e:  # noqa: BLE001
                diffs.append(f"task {t.name}: add_from_json raised {type(e).__name__}: {str(e)[:120]}")
                continue
            a, c = task_fields(t), task_fields(t3)
            if type(t3) is not type(t) or a != c:
                diffs.append(f"task {t.name}: definition changed by to_json + add_from_json: " +
                             ", ".join(f"{k}: {a[k]!r} -> {c[k]!r}" for k in a if a[k] != c[k]))
        for w in problem.workers.values():
            if "_CumulativeWorker_" in w.name:
                continue
            try:
                w3 = pb3.add_from_json(w.to_json())
            except Exception as e:  # noqa: BLE001
                diffs.append(f"worker {w.name}: add_from_json raised {type(e).__name__}: {str(e)[:120]}")
                continue
            if (w3.name, w3.productivity) != (w.name, w.productivity) or (w3.cost is None) != (w.cost is None) or \
                    (w.cost is not None and any(w.cost(v) != w3.cost(v) for v in (0, 1, 4))):
                diffs.append(f"worker {w.name}: definition changed by to_json + add_from_json: productivity "
                             f"{w.productivity!r} -> {w3.productivity!r}")
            # tasks are re-created in declaration order, so the task numbers agree and the assertions must be identical
            # (requirement assertions are not part of a task's definition: only compared when the task has none)
            if not t._required_resources and task_assertions(t) != task_assertions(t2):
                diffs.append(f"task {t.name}: the re-created task emits other assertions")
    finally:
        processscheduler.base.active_problem = saved
    return diffs


def round_trip_costs(problem):
    diffs = []
    x = z3.Int("x_probe")
    for w in problem.workers.values():
        f = w.cost
        if f is None:
            continue
        try:
            f2 = type(f).model_validate_json(f.to_json())
        except Exception as e:  # noqa: BLE001
            diffs.append(f"cost function of {w.name}: JSON round trip raised {type(e).__name__}: {str(e)[:120]}")
            continue
        for v in (0, 1, 2, 5, 9):
            if f(v) != f2(v):
                diffs.append(f"cost function of {w.name}: value at {v} changed by the JSON round trip: {f(v)} -> {f2(v)}")
                break
        else:
            if z3walk.sx(z3.IntVal(0) + f(x)) != z3walk.sx(z3.IntVal(0) + f2(x)):
                diffs.append(f"cost function of {w.name}: symbolic value changed by the JSON round trip")
    return diffs
