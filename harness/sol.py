"""SOL channel: `build_solution` of the real library against `buildSolution` of the model, on the
same interpretation — synthetic ones (random values for every variable the object graph
mentions, including negative busy starts, ties, unscheduled flags) and real z3 models."""
import datetime
import random

import z3

import processscheduler as ps

from harness import pslib, sm, smrun, sem
from harness.pslib import q

EPOCH = datetime.datetime(2000, 1, 1)


def var_sorts(real):
    """name -> sort of every variable the solution builder may read"""
    s = real.initialize()
    sorts = sem.sorts_of(list(s._solver.assertions()))
    for t in real.problem.tasks.values():
        sorts[t._start.decl().name()] = "Int"
        sorts[t._end.decl().name()] = "Int"
    return sorts


def var_sorts_from(solver):
    sorts = sem.sorts_of(list(solver._solver.assertions()))
    for t in solver.problem.tasks.values():
        sorts[t._start.decl().name()] = "Int"
        sorts[t._end.decl().name()] = "Int"
    return sorts


def rename_auto(real, vals):
    """auto-named indicator variables carry a uid on the real side and a `%u<i>%` token in the model"""
    import re
    ren = {}
    for i, ind in enumerate(real.problem.indicators.values()):
        nm = ind._indicator_variable.decl().name()
        m = re.match(r"^Indicator_([A-Za-z]+)_[0-9]{8}$", nm)
        if m:
            ren[nm] = f"Indicator_{m.group(1)}_%u{i}%"
    return {ren.get(k, k): v for k, v in vals.items()}


def random_values(rng, sorts, horizon):
    vals = {}
    for n, srt in sorts.items():
        if srt == "Bool":
            vals[n] = rng.random() < 0.6
        elif srt == "Int":
            vals[n] = rng.choice([-3, -2, -1, 0, 0, 1, 2, 3, 5, 8, horizon])
    return vals


def canon_solution(sol, cal):
    delta, t0 = cal
    lines = [f"horizon {sol.horizon}"]

    def secs(x):
        if x is None:
            return "none"
        if isinstance(x, datetime.timedelta):
            return str(int(x.total_seconds()))
        return str(int((x - EPOCH).total_seconds()))

    def o(v):
        return "none" if v is None else str(v)

    for n, t in sol.tasks.items():
        st = t.start_time
        # without a start_time the library stores a timedelta in start_time / end_time
        lines.append(
            f"task {q(n)} {t.type} {t.start} {t.end} {t.duration} {str(t.optional).lower()} {str(t.scheduled).lower()} "
            f"{o(t.release_date)} {o(t.due_date)} {str(t.due_date_is_deadline).lower()} {t.work_amount} {t.priority} "
            f"[{' '.join(q(r) for r in t.assigned_resources)}] {secs(st)} {secs(t.end_time)} {secs(t.duration_time)}")
    for n, r in sol.resources.items():
        lines.append(f"res {q(n)} {r.type} [" + " ".join(f"({q(a[0])} {a[1]} {a[2]})" for a in r.assignments) + "]")
    for n, b in sol.buffers.items():
        lines.append(f"buf {q(n)} [{' '.join(map(str, b.level))}] [{' '.join(map(str, b.level_change_times))}]")
    for n, v in sol.indicators.items():
        lines.append(f"ind {q(n)} {v}")
    return lines


def build_line(vals, cal):
    delta, t0 = cal
    items = " ".join(f"({q(k)} {pslib.b(v) if isinstance(v, bool) else v})" for k, v in vals.items())
    return f"(build {delta if delta is not None else 'none'} {t0 if t0 is not None else 'none'} ({items}))"


def problem_decl(script, cal):
    """the script with calendar settings on its problem declaration"""
    delta, t0 = cal
    out = []
    for d in script:
        if d["op"] == "problem":
            d = dict(d)
            if delta is not None:
                d["delta_time"] = datetime.timedelta(seconds=delta)
                if t0 is not None:
                    d["start_time"] = EPOCH + datetime.timedelta(seconds=t0)
        out.append(d)
    return out


def run_case(driver, script, rng, use_z3=False):
    """returns (diffs, nlines)"""
    # time steps below and above one day (a timedelta normalises to days + seconds: `.seconds` is not the step), with and
    # without a start time
    cal = rng.choice([(None, None), (None, None), (60, None), (3600, 86400), (1, 0), (900, 7200), (86400, None),
                      (129600, 3600), (604800, 0), (90000, None)])
    real = pslib.Real()
    real.run(problem_decl(script, cal))
    driver.reset()
    for d in script:
        if pslib.to_line(d) is not None:
            driver.send(pslib.to_line(d))
    if real.problem is None:
        return [], 0
    sorts = var_sorts(real)
    H = real.problem.horizon or 12
    if use_z3:
        with smrun.silent():
            s = ps.SchedulingSolver(problem=real.problem, max_time=5)
            sol = s.solve()
        if not sol:
            return [], 0
        m = s._model
        vals = {}
        for n, srt in sorts.items():
            v = m.eval(z3.Bool(n) if srt == "Bool" else z3.Int(n), model_completion=True)
            if srt == "Bool":
                vals[n] = z3.is_true(v)
            elif srt == "Int" and z3.is_int_value(v):
                vals[n] = v.as_long()
        py = canon_solution(sol, cal)
    else:
        vals = random_values(rng, sorts, H)
        with smrun.silent():
            s = ps.SchedulingSolver(problem=real.problem)
            try:
                sol = s.build_solution(sm.FakeModel(vals))
            except Exception as e:  # noqa: BLE001
                return [f"build_solution raised {type(e).__name__}: {e}"], 0
        py = canon_solution(sol, cal)
    # auto-named indicator variables carry a uid on the real side and a `%u<i>%` token in the model
    import re
    ren = {}
    for i, ind in enumerate(real.problem.indicators.values()):
        nm = ind._indicator_variable.decl().name()
        m = re.match(r"^Indicator_([A-Za-z]+)_[0-9]{8}$", nm)
        if m:
            ren[nm] = f"Indicator_{m.group(1)}_%u{i}%"
    vals = {ren.get(k, k): v for k, v in vals.items()}
    _, ln = driver.send_multi(build_line(vals, cal))
    diffs = []
    if py != ln:
        for i in range(max(len(py), len(ln))):
            a = py[i] if i < len(py) else "(end)"
            b_ = ln[i] if i < len(ln) else "(end)"
            if a != b_:
                diffs.append(f"line {i}: real={a} model={b_}")
                if len(diffs) >= 4:
                    break
    return diffs, len(py)
