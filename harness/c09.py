"""C09 search on the real code with real z3: schedules admitted by the real constraint system (the library's own
solve() and an enumeration of differently placed schedules, ties included) are turned into solutions by the real
build_solution, and the reported buffer sequences are compared with the statement of the theorems
(C09_reported / C09_exclusive / C09_bounds / C09_initial / C09_final) evaluated on the reported task times."""
import z3

import processscheduler as ps

from harness import pslib, smrun


def count(summary, k):
    summary["dist"][k] = summary["dist"].get(k, 0) + 1


def buffers_of(script):
    """buffer declarations and their accesses (task, signed quantity, 'start'|'end') in script order"""
    bufs = {}
    for d in script:
        if d["op"] == "buffer":
            bufs[d["name"]] = {"decl": d, "acc": []}
        elif d["op"] == "constraint" and d["c"][0] in ("unloadBuffer", "loadBuffer"):
            _, t, b, q = d["c"]
            if b in bufs:
                bufs[b]["acc"].append((t, -q, "start") if d["c"][0] == "unloadBuffer" else (t, q, "end"))
    return bufs


def oracle(script, sol):
    """list of deviations of the reported buffer sequences from the documented behaviour"""
    out = []
    for name, info in buffers_of(script).items():
        d = info["decl"]
        bs = sol.buffers.get(name)
        if bs is None:
            out.append(f"buffer {name} is missing from the solution")
            continue
        level, times = list(bs.level), list(bs.level_change_times)
        events = []
        for t, q, at in info["acc"]:
            ts = sol.tasks[t]
            if not ts.scheduled:
                continue
            events.append((ts.start if at == "start" else ts.end, q, t))
        if len(level) != len(times) + 1:
            out.append(f"{name}: {len(level)} levels for {len(times)} change times")
            continue
        if any(times[i] >= times[i + 1] for i in range(len(times) - 1)):
            out.append(f"{name}: change times not strictly increasing: {times}")
        if set(times) != {e[0] for e in events}:
            out.append(f"{name}: change times {times} are not the access instants {sorted({e[0] for e in events})}")
        if d.get("initial") is not None and level[0] != d["initial"]:
            out.append(f"{name}: sequence starts at {level[0]}, declared initial level {d['initial']}")
        for k, tau in enumerate(times):
            want = level[0] + sum(q for (inst, q, _) in events if inst <= tau)
            if level[k + 1] != want:
                out.append(f"{name}: level after instant {tau} is {level[k + 1]}, accesses up to {tau} give {want} "
                           f"(levels {level}, times {times}, accesses {events})")
                break
        if d.get("final") is not None and level[-1] != d["final"]:
            out.append(f"{name}: sequence ends at {level[-1]}, required final level {d['final']}")
        for v in level:
            if d.get("lb") is not None and v < d["lb"]:
                out.append(f"{name}: level {v} below the lower bound {d['lb']} (levels {level})")
                break
            if d.get("ub") is not None and v > d["ub"]:
                out.append(f"{name}: level {v} above the upper bound {d['ub']} (levels {level})")
                break
        if not d.get("concurrent", False):
            inst = [e[0] for e in events]
            if len(set(inst)) != len(inst):
                out.append(f"{name}: non-concurrent buffer accessed twice at the same instant: {events}")
    return out


def describe(sol):
    return {n: (t.start, t.end, t.scheduled) for n, t in sol.tasks.items()}


def gen_buffer_case(rng):
    """a small buffer problem that is usually feasible: mandatory tasks, 1..2 buffers, bounds that sometimes bind, a
    final level that is usually the reachable one"""
    H = rng.choice([8, 10, 12, 14])
    script = [{"op": "problem", "name": "pb", "horizon": H}]
    nt = rng.randint(2, 5)
    names = []
    for i in range(nt):
        k = rng.random()
        kind = ("fixed", rng.choice([1, 1, 2, 3])) if k < 0.6 else ("zero",) if k < 0.75 else ("var", rng.choice([0, 1]), rng.choice([2, 3]), None)
        names.append(f"T{i + 1}")
        script.append({"op": "task", "name": names[-1], "kind": kind, "optional": False})
    nb = rng.choice([1, 1, 2])
    for j in range(nb):
        bn = f"B{j + 1}"
        d = {"op": "buffer", "name": bn, "concurrent": rng.random() < 0.55}
        init = rng.choice([0, 2, 5, 10]) if rng.random() < 0.85 else None
        if init is not None:
            d["initial"] = init
        acc = []
        total = 0
        for t in names:
            for kind in ("unloadBuffer", "loadBuffer"):
                if rng.random() < 0.4:
                    q = rng.choice([1, 1, 2, 3, 5])
                    acc.append({"op": "constraint", "c": (kind, t, bn, q)})
                    total += q if kind == "loadBuffer" else -q
        rng.shuffle(acc)
        r = rng.random()
        if init is None or r < 0.45:
            d["final"] = (init or 0) + total if rng.random() < 0.85 else rng.choice([0, 1, 4, 7])
        if rng.random() < 0.5:
            d["lb"] = rng.choice([0, 0, 0, -3, 1])
        if rng.random() < 0.35:
            d["ub"] = rng.choice([6, 10, 15])
        script.append(d)
        script += acc
    for _ in range(rng.choice([0, 0, 1, 2])):
        a, b = rng.sample(names, 2)
        c = rng.choice([("precedence", a, b, 0, "lax"), ("startAt", a, rng.randint(0, H - 3)), ("endSynced", a, b),
                        ("startSynced", a, b), ("precedence", a, b, 1, "tight")])
        script.append({"op": "constraint", "c": c})
    return script


def completeness(script, real, base, driver, rng, summary):
    """placements that satisfy the documented behaviour (the Lean spec twins of the task rules, the task constraints and
    the buffer closed form) must be admitted by the real constraint system; one pair of accesses of a concurrent buffer
    is forced to the same instant in half of the cases"""
    from harness import sem, props as P, z3walk
    driver.reset()
    for d in script:
        if pslib.to_line(d) is not None:
            driver.send(pslib.to_line(d))
    _, lean_lines = driver.send_multi("(initialize (debug false))")
    _, spec_lines = driver.send_multi("(spec ALL)")
    sub = dict(P.subst_for(real))
    sub.update(z3walk.token_alignment([z3walk.sx(a) for a in base], [l.split("\t", 1)[1] for l in lean_lines]))
    b = sem.Builder(sem.sorts_of(base), sub)
    try:
        spec = [b.fml(sem.parse_sexp(l)) for l in spec_lines]
    except Exception:  # noqa: BLE001
        count(summary, "run_c09_spec_unbuildable")
        return None
    H = real.problem.horizon or 12
    sp = z3.Solver()
    sp.set("timeout", 10000)
    sp.add(spec)
    tasks = list(real.tasks.values())
    for t in tasks:
        sp.add(t._start >= 0, t._start <= H, t._end >= 0, t._end <= H)
    bufs = buffers_of(script)
    cands = [(n, i) for n, i in bufs.items() if len(i["acc"]) >= 2 and i["decl"].get("concurrent", False)]
    tied = False
    if cands and rng.random() < 0.6:
        name, info = rng.choice(cands)
        (t1, _, a1), (t2, _, a2) = rng.sample(info["acc"], 2)
        sp.push()
        sp.add((real.tasks[t1]._start if a1 == "start" else real.tasks[t1]._end) ==
               (real.tasks[t2]._start if a2 == "start" else real.tasks[t2]._end))
        if sp.check() == z3.sat:
            tied = True
        else:
            sp.pop()
    n = 0
    for _ in range(6):
        if sp.check() != z3.sat:
            break
        m = sp.model()
        pins, block, desc = [], [], {}
        for t in tasks:
            if t.optional:
                sched = z3.is_true(m.eval(t._scheduled, model_completion=True))
                pins.append(t._scheduled == sched)
                block.append(t._scheduled != sched)
                if not sched:
                    desc[t.name] = "not scheduled"
                    continue          # the times of an unscheduled task are not part of the schedule
            vs = [t._start, t._end] + ([t._duration] if hasattr(t, "_duration") else [])
            for v in vs:
                val = m.eval(v, model_completion=True)
                pins.append(v == val)
                block.append(v != val)
            desc[t.name] = (str(m.eval(t._start, model_completion=True)), str(m.eval(t._end, model_completion=True)))
        pins.append(real.problem._horizon == m.eval(real.problem._horizon, model_completion=True))
        chk = z3.Solver()
        chk.set("timeout", 10000)
        chk.add(base)
        chk.add(pins)
        r = chk.check()
        n += 1
        if r == z3.unsat:
            return {"what": "a placement that satisfies the documented buffer behaviour (levels from the accesses in time "
                            "order, bounds, final level" + (", two simultaneous accesses of a concurrent buffer" if tied else "")
                            + ") is rejected by the real constraint system", "placement": desc}
        if r == z3.unknown:
            count(summary, "run_c09_completeness_unknown")
        sp.add(z3.Or(block))
    count(summary, f"run_c09_spec_placements_pinned_{n}" + ("_tied" if tied and n else ""))
    return None


def run_c09(script, rng, summary, driver=None):
    own = rng.random() < 0.8
    if own:
        script = gen_buffer_case(rng)
        if any(r != "ok" for r in pslib.Real().run(script)):
            count(summary, "run_c09_own_case_rejected")
            return None
    # the completeness probe runs on the dedicated cases only (mandatory tasks, plain constraints): generic scripts
    # reach regions recorded under other properties (F18, F30, ...)
    v = run_c09_case(script, rng, summary, driver if own else None)
    if v and own:
        v["script"] = script
    return v


def run_c09_case(script, rng, summary, driver=None):
    bufs = buffers_of(script)
    if not any(b["acc"] for b in bufs.values()):
        count(summary, "run_c09_skipped_no_access")
        return None
    optional = {d["name"] for d in script if d["op"] == "task" and d.get("optional")}
    if any(t in optional for b in bufs.values() for (t, _, _) in b["acc"]):
        # known finding F16: an unscheduled optional task still accesses its buffer
        count(summary, "run_c09_skipped_known_F16_region")
        return None
    real = pslib.Real()
    real.run(script)
    with smrun.silent():
        s = ps.SchedulingSolver(problem=real.problem, max_time=10)
        s.initialize()
    base = list(s._solver.assertions())
    count(summary, "run_c09")
    summary["nontrivial"].append("run" + str(hash(str(script))))
    chk = z3.Solver()
    chk.set("timeout", 10000)
    chk.add(base)
    n = 0
    ties = 0
    for it in range(8):
        r = chk.check()
        if r != z3.sat:
            if it == 0:
                count(summary, "run_c09_" + str(r))
            break
        m = chk.model()
        with smrun.silent():
            sol = s.build_solution(m)
        n += 1
        dev = oracle(script, sol)
        if dev:
            return {"what": "the reported buffer sequence deviates from the accesses of the schedule: " + dev[0],
                    "deviations": dev[:4], "schedule": describe(sol)}
        for name, info in bufs.items():
            inst = [(sol.tasks[t].start if at == "start" else sol.tasks[t].end) for (t, _, at) in info["acc"]]
            if len(set(inst)) != len(inst):
                ties += 1
        # another placement of the accessing tasks
        lits = []
        for info in bufs.values():
            for (t, _, at) in info["acc"]:
                v = real.tasks[t]._start if at == "start" else real.tasks[t]._end
                lits.append(v != m.eval(v, model_completion=True))
        chk.add(z3.Or(lits))
    count(summary, f"run_c09_schedules_{min(n, 8)}")
    if ties:
        count(summary, "run_c09_schedules_with_simultaneous_accesses")
    # ties: forced on one pair of accesses of one buffer
    cands = [(name, info) for name, info in bufs.items() if len(info["acc"]) >= 2]
    if cands:
        name, info = rng.choice(cands)
        (t1, _, a1), (t2, _, a2) = rng.sample(info["acc"], 2)
        v1 = real.tasks[t1]._start if a1 == "start" else real.tasks[t1]._end
        v2 = real.tasks[t2]._start if a2 == "start" else real.tasks[t2]._end
        tie = z3.Solver()
        tie.set("timeout", 10000)
        tie.add(base)
        tie.add(v1 == v2)
        r = tie.check()
        conc = info["decl"].get("concurrent", False)
        count(summary, f"run_c09_tie_{'concurrent' if conc else 'nonconcurrent'}_{r}")
        if r == z3.sat:
            if not conc:
                return {"what": f"non-concurrent buffer {name}: {t1} and {t2} may access it at the same instant",
                        "tasks": [t1, t2]}
            with smrun.silent():
                sol = s.build_solution(tie.model())
            dev = oracle(script, sol)
            if dev:
                return {"what": "simultaneous accesses of a concurrent buffer are reported wrongly: " + dev[0],
                        "deviations": dev[:4], "schedule": describe(sol)}
    if driver is not None:
        v = completeness(script, real, base, driver, rng, summary)
        if v:
            return v
    # the library's own answer
    with smrun.silent():
        try:
            sol = ps.SchedulingSolver(problem=real.problem, max_time=10).solve()
        except Exception as e:  # noqa: BLE001
            return {"what": f"solve() raised {type(e).__name__}: {e}"[:300]}
    if sol:
        dev = oracle(script, sol)
        if dev:
            return {"what": "solve(): the reported buffer sequence deviates from the accesses of the schedule: " + dev[0],
                    "deviations": dev[:4], "schedule": describe(sol)}
        count(summary, "run_c09_library_solution_checked")
    return None
