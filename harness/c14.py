"""C14 searches on the real code (no model involved here): a problem and its consistently renamed twin, a problem and
its twin with the declarations of one kind permuted, and a problem built / solved after unrelated problems in the same
interpreter versus in a fresh interpreter, must have the same verdict, the same valid schedules (cross-pinned with z3,
both directions) and the same optimum."""
import json
import os
import random
import subprocess
import sys

import z3

from harness import pslib, smrun, z3walk

VERIF = os.path.dirname(os.path.dirname(os.path.abspath(__file__)))
SKIP_KEYS = ("op", "kind")


def count(summary, k):
    summary["dist"][k] = summary["dist"].get(k, 0) + 1


# ------------------------------------------------------------------------------ renaming
def names_of(script):
    ns = []
    for d in script:
        if d["op"] in ("task", "worker", "cumulative", "buffer", "problem") or (d["op"] in ("select", "constraint") and d.get("name")):
            ns.append(d["name"])
        if d["op"] == "indicator" and d["i"][0] == "expr":
            ns.append(d["i"][1])
    return list(dict.fromkeys(ns))


def fresh_names(rng, names):
    """a bijection onto fresh collision-free names: other lengths, another lexicographic order, names that are
    prefixes of one another, names with spaces / digits first"""
    pool = []
    stems = ["a", "ab", "abc", "Z", "ZZ", "m1", "m10", "m2", "job", "jobs", "9k", "x y", "Q", "q", "Task", "Worker", "horiz",
             "Buffer", "p", "pp", "ppp", "w", "ww", "t", "tt", "k8", "k80", "alpha", "alph", "beta", "be", "zeta", "z", "n0",
             "n00", "r", "rr", "rrr", "u", "uu", "v", "vv", "s1", "s11", "s111", "e", "ee", "eee", "d", "dd", "ddd"]
    if rng.random() < 0.35:
        # names outside the identifier alphabet, several of which differ only in characters a "sanitiser" would fold
        stems = ["切削", "研磨", "组装", "α", "β", "γ", "côte", "cète", "step (a)", "step [a]", "job 1", "job_1", "job-1", "a.b",
                 "a b", "a/b", "a+b", "x y", "x_y", "naïve", "naive", "Ω1", "Ω2", "é", "è", "t#1", "t#2", "w:1", "w;1", "m'", 'm"']
    rng.shuffle(stems)
    for s in stems:
        if s not in names and s not in pool:
            pool.append(s)
    i = 0
    while len(pool) < len(names):
        pool.append(f"g{i}x")
        i += 1
    return dict(zip(names, pool))


def deep_rename(x, ren):
    if isinstance(x, str):
        return ren.get(x, x)
    if isinstance(x, (list, tuple)):
        if x and isinstance(x[0], str) and not isinstance(x, list):
            # tagged tuple: the head is a keyword
            out = (x[0],) + tuple(deep_rename(y, ren) for y in x[1:])
        else:
            out = [deep_rename(y, ren) for y in x]
            out = tuple(out) if isinstance(x, tuple) else out
        return out
    return x


KEYWORDS = {"exact", "min", "max", "lax", "strict", "tight", "atleast", "atmost"}


def rename_script(script, ren):
    out = []
    for d in script:
        d2 = {}
        for k, v in d.items():
            if k in SKIP_KEYS:
                d2[k] = v
            elif k == "c" or k == "i" or k == "o" or k == "res":
                d2[k] = rename_tagged(v, ren)
            else:
                d2[k] = deep_rename(v, ren)
        out.append(d2)
    return out


def rename_tagged(c, ren):
    """constraint / indicator / objective body: the head is a keyword, trailing keyword strings stay"""
    if isinstance(c, (list, tuple)) and c and isinstance(c[0], str):
        body = [c[0]]
        for y in c[1:]:
            if isinstance(y, str):
                body.append(y if y in KEYWORDS and y not in ren else ren.get(y, y))
            elif isinstance(y, (list, tuple)):
                body.append(rename_inner(y, ren))
            else:
                body.append(y)
        return tuple(body) if isinstance(c, tuple) else body
    return c


HEADS = {"tstart", "tend", "tdur", "horizon", "sched", "not", "and", "or", "+", "-", "*", "<=", "<", ">=", ">", "=", "!=",
         "ref", "raw", "worker", "select", "cumul"}


def rename_inner(y, ren):
    if isinstance(y, str):
        return ren.get(y, y)
    if isinstance(y, (list, tuple)):
        if y and isinstance(y[0], str) and y[0] in HEADS:
            out = [y[0]] + [rename_inner(z, ren) for z in y[1:]]
        else:
            out = [rename_inner(z, ren) for z in y]
        return tuple(out) if isinstance(y, tuple) else out
    return y


# ------------------------------------------------------------------------------ permutations
def referenced_constraints(script):
    refs = set()

    def walk(x):
        if isinstance(x, (list, tuple)):
            if len(x) == 2 and x[0] == "ref" and isinstance(x[1], int):
                refs.add(x[1])
            for y in x:
                walk(y)
    for d in script:
        if d["op"] == "constraint":
            walk(d["c"])
            if d["c"][0] == "forceApplyN":
                refs.update(d["c"][1])
    return refs


def has_refs(c):
    if c[0] in ("forceApplyN", "indicatorTarget", "indicatorBounds"):
        return True
    found = []

    def walk(x):
        if isinstance(x, (list, tuple)):
            if len(x) == 2 and x[0] == "ref" and isinstance(x[1], int):
                found.append(1)
            for y in x:
                walk(y)
    walk(c)
    return bool(found)


def permute_script(script, rng):
    """permute the declarations of one kind among the positions of that kind.  Tasks among task slots, workers among
    worker slots, buffers among buffer slots, and the constraints that neither reference nor are referenced by another
    constraint among their slots.  Returns (script', cmap) with cmap: constraint id -> id in the permuted script."""
    out = list(script)
    what = []
    # a declaration stage ends at every indicator / objective: those snapshot "all tasks declared so far"
    stage, st = [], 0
    for d in script:
        stage.append(st)
        if d["op"] in ("indicator", "objective"):
            st += 1
    for kind in ("task", "worker", "buffer"):
        for stg in sorted(set(stage)):
            slots = [i for i, d in enumerate(script) if d["op"] == kind and stage[i] == stg]
            if len(slots) >= 2 and rng.random() < 0.8:
                perm = slots[:]
                rng.shuffle(perm)
                if perm != slots and kind not in what:
                    what.append(kind)
                for a, b in zip(slots, perm):
                    out[a] = script[b]
    cslots = [i for i, d in enumerate(script) if d["op"] == "constraint"]
    ids = {i: k for k, i in enumerate(cslots)}
    refd = referenced_constraints(script)
    # buffer loads / unloads and everything else: free slots are those not involved in references
    cmap = {k: k for k in range(len(cslots))}
    for stg in sorted(set(stage)):
        free = [i for i in cslots if ids[i] not in refd and not has_refs(script[i]["c"]) and stage[i] == stg]
        if len(free) >= 2 and rng.random() < 0.8:
            perm = free[:]
            rng.shuffle(perm)
            if perm != free and "constraint" not in what:
                what.append("constraint")
            for a, b in zip(free, perm):
                out[a] = script[b]
                cmap[ids[b]] = ids[a]
    return out, cmap, what


def permute_indicators(script, rng):
    """permute runs of consecutive indicator / objective declarations (nothing else is declared in between, so every
    member of the run snapshots the same tasks and resources), re-indexing the references to indicators (objectives on an
    indicator, IndicatorTarget / IndicatorBounds) that come after the run.  Returns (script', changed)"""
    probe = pslib.Real()
    created = {}
    for p, d in enumerate(script):
        n0 = len(probe.problem.indicators) if probe.problem is not None else 0
        probe.step(d)
        n1 = len(probe.problem.indicators) if probe.problem is not None else 0
        created[p] = (n0, n1)
    runs, cur = [], []
    for p, d in enumerate(script):
        if d["op"] in ("indicator", "objective"):
            cur.append(p)
        elif d["op"] == "constraint" and d["c"][0] not in ("loadBuffer", "unloadBuffer", "indicatorTarget", "indicatorBounds"):
            continue            # a constraint in between declares no task, resource or buffer access
        else:
            if len(cur) >= 2:
                runs.append(cur)
            cur = []
    if len(cur) >= 2:
        runs.append(cur)
    order = list(range(len(script)))
    changed = False
    def creator(idx):
        return next((q for q, (a, b) in created.items() if a <= idx < b), None)

    def valid(run, perm):
        place = {old: k for k, old in enumerate(perm)}        # position (within the run) each old item moves to
        for p_ in run:
            d = script[p_]
            if d["op"] == "objective" and d["o"][0] in ("maximizeIndicator", "minimizeIndicator"):
                q = creator(d["o"][1])
                if q in place and place[q] > place[p_]:
                    return False
        return True

    for run in runs:
        if rng.random() < 0.1:
            continue
        for _ in range(20):
            perm = run[:]
            rng.shuffle(perm)
            if perm != run and valid(run, perm):
                changed = True
                for a, b in zip(run, perm):
                    order[a] = b
                break
    if not changed:
        return script, False
    # old indicator index -> new index
    remap, n = {}, 0
    for newpos, oldpos in enumerate(order):
        a, b = created[oldpos]
        for k in range(a, b):
            remap[k] = n
            n += 1
    out = []
    for oldpos in order:
        d = json.loads(json.dumps(script[oldpos], default=list))
        if d["op"] == "objective" and d["o"][0] in ("maximizeIndicator", "minimizeIndicator"):
            d["o"][1] = remap.get(d["o"][1], d["o"][1])
        if d["op"] == "constraint" and d["c"][0] in ("indicatorTarget", "indicatorBounds"):
            d["c"][1] = remap.get(d["c"][1], d["c"][1])
        out.append(d)
    return fix_script(out), True


def library_optimum(script, cfg=None):
    """the objective value of the schedule the library's own solve() returns on a fresh build of `script` (default
    configuration: the incremental optimiser); None when there is nothing definite to compare (no objective, mixed
    directions, no schedule, or the anytime search ran into its time budget)"""
    import time
    real = pslib.Real()
    real.run(script)
    if real.problem is None or not real.problem.objectives:
        return None
    import processscheduler as ps
    with smrun.silent():
        try:
            s = ps.SchedulingSolver(problem=real.problem, max_time=10, **(cfg or {}))
            t0 = time.time()
            sol = s.solve()
            wall = time.time() - t0
        except Exception:  # noqa: BLE001
            return None
    if not sol or wall >= 4:
        return None
    setup = smrun.objective_setup(real, cfg or {}, script)
    if setup is None:
        return None
    try:
        return smrun.value_of(s._model, setup[0])
    except Exception:  # noqa: BLE001
        return None


# ------------------------------------------------------------------------------ comparison of two builds
def build(script):
    real = pslib.Real()
    res = real.run(script)
    return real, res


def assertions_of(real, cfg=None):
    s = real.initialize(**(cfg or {}))
    return s, list(s._solver.assertions())


def both_assertions(realA, realB):
    """assertion lists of the problem and of its twin (both built already, in this order, in the same interpreter);
    an exception of the library on one side only is itself a difference"""
    outs = []
    for r in (realA, realB):
        try:
            outs.append(assertions_of(r)[1])
        except Exception as e:  # noqa: BLE001
            outs.append(f"{type(e).__name__}: {e}"[:200])
    ea, eb = isinstance(outs[0], str), isinstance(outs[1], str)
    if ea and eb:
        return None, None, None
    if ea or eb:
        return None, None, {"what": "initialising the solver raises for " + ("the problem" if ea else "its twin (built after "
                            "the problem in the same interpreter)") + " only: " + (outs[0] if ea else outs[1])}
    return outs[0], outs[1], None


def pins_for(real_from, m, real_to, ren=None, cmap=None):
    """pins on real_to's variables reproducing the schedule of model m of real_from (task times of scheduled tasks,
    durations, scheduled flags, selections, applied flags, horizon); names go through `ren`, constraint ids through cmap"""
    ren = ren or {}
    pins = []
    for n, t in real_from.tasks.items():
        u = real_to.tasks[ren.get(n, n)]
        sched = True
        if t.optional:
            sched = z3.is_true(m.eval(t._scheduled, model_completion=True))
            pins.append(u._scheduled == sched)
        if sched:
            pins += [u._start == m.eval(t._start, model_completion=True), u._end == m.eval(t._end, model_completion=True)]
            if hasattr(t, "_duration"):
                pins.append(u._duration == m.eval(t._duration, model_completion=True))
    pins.append(real_to.problem._horizon == m.eval(real_from.problem._horizon, model_completion=True))
    sf, st_ = real_from.selects(), real_to.selects()
    for i, sel in enumerate(sf):
        if i >= len(st_):
            continue
        byname = {w.name: f for w, f in st_[i]._selection_dict.items()}
        for w, flag in sel._selection_dict.items():
            wn = rename_worker(w.name, ren)
            if wn in byname:
                pins.append(byname[wn] == z3.is_true(m.eval(flag, model_completion=True)))
    cf, ct = list(real_from.problem.constraints.values()), list(real_to.problem.constraints.values())
    if cmap is False:
        cf = []          # constraint ids are not aligned between the two builds: applied flags stay free
    for i, c in enumerate(cf):
        j = cmap.get(i, i) if cmap else i
        if j < len(ct) and c.optional and ct[j].optional:
            pins.append(ct[j]._applied == z3.is_true(m.eval(c._applied, model_completion=True)))
    return pins


def rename_worker(name, ren):
    if name in ren:
        return ren[name]
    if "_CumulativeWorker_" in name:
        base, idx = name.rsplit("_CumulativeWorker_", 1)
        return f"{ren.get(base, base)}_CumulativeWorker_{idx}"
    return name


def block(real, m):
    lits = []
    for n, t in real.tasks.items():
        sched = True
        if t.optional:
            sched = z3.is_true(m.eval(t._scheduled, model_completion=True))
            lits.append(t._scheduled != sched)
        if sched:
            lits += [t._start != m.eval(t._start, model_completion=True), t._end != m.eval(t._end, model_completion=True)]
    return z3.Or(lits) if lits else z3.BoolVal(False)


def describe(real, m):
    out = {}
    for n, t in real.tasks.items():
        sched = (not t.optional) or z3.is_true(m.eval(t._scheduled, model_completion=True))
        out[n] = {"scheduled": sched}
        if sched:
            out[n].update(start=str(m.eval(t._start, model_completion=True)), end=str(m.eval(t._end, model_completion=True)))
    return out


def solver_with(assertions, timeout=10000):
    s = z3.Solver()
    s.set("timeout", timeout)
    s.add(assertions)
    return s


def compare_builds(realA, A, realB, B, ren, cmap, script, k=5, script2=None):
    """verdicts, cross-pinned schedules (both directions), optimum.  Returns a violation description or None"""
    sa, sb = solver_with(A), solver_with(B)
    va, vb = str(sa.check()), str(sb.check())
    if "unknown" in (va, vb):
        return "unknown"
    if va != vb:
        return {"what": f"feasibility verdict changes: {va} for the problem, {vb} for its twin"}
    if va == "unsat":
        return None
    inv = {v: k_ for k_, v in ren.items()}
    cinv = {v: k_ for k_, v in (cmap or {}).items()} if cmap is not False else False
    for (rf, sf, rt, T, r, cm, tag) in ((realA, sa, realB, B, ren, cmap, "the problem"), (realB, sb, realA, A, inv, cinv, "the twin")):
        for _ in range(k):
            if sf.check() != z3.sat:
                break
            m = sf.model()
            chk = solver_with(T)
            chk.add(pins_for(rf, m, rt, r, cm))
            if chk.check() == z3.unsat:
                return {"what": f"a schedule admitted for {tag} is rejected for the other one", "schedule": describe(rf, m)}
            sf.add(block(rf, m))
    # optimum
    setupA = smrun.objective_setup(realA, {}, script)
    setupB = smrun.objective_setup(realB, {}, script2)
    if setupA is not None and setupB is not None:
        oa, ob = optimum(A, *setupA), optimum(B, *setupB)
        if oa is not None and ob is not None and oa != ob:
            return {"what": f"the optimal objective value changes: {oa} for the problem, {ob} for its twin"}
        if script2 is not None and len(realA.problem.objectives) > 1:
            # several objectives: the library's search against the worst-first oracle (every value of the weighted sum is
            # visited on the way down, so a stop on a wrongly derived bound cannot be stepped over)
            aa, ab = smrun.adversarial_incremental_solve(script), smrun.adversarial_incremental_solve(script2)
            if aa and ab and aa.get("result") and ab.get("result") and not aa.get("time_stop") and not ab.get("time_stop") \
                    and aa.get("value") is not None and ab.get("value") is not None and aa["value"] != ab["value"]:
                return {"what": f"the optimum solve() reports changes with the declaration order of the objectives: "
                                f"{aa['value']} for the problem, {ab['value']} for its twin (z3 answering with the worst "
                                f"admissible model each time)" + (f"; optimum over the assertions: {oa}" if oa is not None else "")}
        if script2 is not None:
            # what a user sees: the value the library's own search returns for the two problems
            la, lb = library_optimum(script), library_optimum(script2)
            if la is not None and lb is not None and la != lb:
                return {"what": f"the optimum solve() reports changes: {la} for the problem, {lb} for its twin"
                                + (f" (optimum over the assertions: {oa})" if oa is not None else "")}
    return None


def optimum(assertions, target, is_min):
    """the optimal value of `target` over the assertions, by successive tightening with a plain z3.Solver (z3.Optimize is
    not used: on array / quantified assertions it now and then returns a non-optimal model, finding F42); None when z3
    gives up or the objective is unbounded within 400 steps"""
    s = z3.Solver()
    s.set("timeout", 10000)
    s.add(assertions)
    best = None
    for _ in range(400):
        r = s.check()
        if r == z3.unsat:
            return best
        if r != z3.sat:
            return None
        v = s.model().eval(target, model_completion=True)
        if not z3.is_int_value(v):
            return None
        best = v.as_long()
        s.add(target < best if is_min else target > best)
    return None


def parking_leak_region(script):
    """Where an unscheduled optional task is parked (at -task number) or an unselected worker (at a "unique" negative
    integer) depends on the declaration order.  In the usages recorded as findings F16, F18, F19, F20, F24 - and wherever
    the user's own expressions read the times of an optional task - those parking instants reach feasibility or the
    objective, so permuting declarations changes the answer.  Such scripts are not permuted (F20 is replayed as the
    known finding of this property)."""
    optional = {d["name"] for d in script if d["op"] == "task" and d.get("optional")}
    if not optional:
        return None

    def mentions_optional(x):
        if isinstance(x, str):
            return x in optional
        if isinstance(x, (list, tuple)):
            return any(mentions_optional(y) for y in x)
        return False

    def reads_times(x):
        """a raw expression / user indicator reading start, end or duration of an optional task"""
        if isinstance(x, (list, tuple)):
            if len(x) == 2 and x[0] in ("tstart", "tend", "tdur") and x[1] in optional:
                return True
            return any(reads_times(y) for y in x)
        return False

    sel = any(d["op"] == "require" and d["res"][0] in ("select", "cumul") for d in script)
    for d in script:
        if d["op"] == "constraint":
            c = d["c"]
            if c[0] in ("unorderedGroup", "orderedGroup", "scheduleN", "contiguous") and mentions_optional(c[1]):
                return "F18"
            if c[0] in ("loadBuffer", "unloadBuffer") and c[1] in optional:
                return "F16"
            if c[0] in ("nonDelay", "distance") and (sel or optional):
                return "F20"
            if c[0] == "interrupted":
                return "F24"
            if reads_times(c):
                return "user expression over an optional task"
        if d["op"] == "require" and d["task"] in optional and (d.get("delay_in", 0) or d.get("early_out", 0) or d.get("dynamic")):
            return "F19"
        if d["op"] == "indicator" and reads_times(d["i"]):
            return "user expression over an optional task"
        if d["op"] == "indicator" and d["i"][0] == "idle" and (sel or optional):
            # IndicatorResourceIdle sorts the busy intervals of its worker with sort_no_duplicates (finding F45)
            return "F45"
        if d["op"] == "objective" and d["o"][0] in ("startLatest", "greatestStart") and \
                (d["o"][1] is None or mentions_optional(d["o"][1])):
            # the minimum / maximum of the start times counts the parking instant of an unscheduled task (finding F43)
            return "F43"
    return None


# ------------------------------------------------------------------------------ histories
HIST_CHILD = r"""
import json, sys
sys.path.insert(0, %r)
from harness import c14
job = json.loads(sys.stdin.read())
print(json.dumps(c14.observe(job["script"], job["cfg"], job.get("history", []))))
"""


def as_tuples(x):
    """scripts go through JSON: lists back to tuples where the interpreters expect tagged tuples"""
    if isinstance(x, list):
        return tuple(as_tuples(y) for y in x)
    if isinstance(x, dict):
        return {k: as_tuples(v) for k, v in x.items()}
    return x


def fix_script(script):
    return script          # the interpreters accept lists wherever the generator produces tuples


def observe(script, cfg, history, interleave=False):
    """see _observe; z3's C-level verbose output (debug mode sets the global verbosity) is discarded"""
    sys.stderr.flush()
    saved = os.dup(2)
    devnull = os.open(os.devnull, os.O_WRONLY)
    os.dup2(devnull, 2)
    try:
        return _observe(script, cfg, history, interleave)
    finally:
        z3.set_option("verbose", 0)
        os.dup2(saved, 2)
        os.close(saved)
        os.close(devnull)


def _observe(script, cfg, history, interleave=False):
    """build (and solve) every script of `history`, then the script under test; returns what a user can observe of the
    last one: canonical assertion list, verdict of the library's solve(), objective value, task times validity.
    interleave: the earlier problems are built first, then the problem under test is built, then the earlier ones are
    solved, then the one under test"""
    import processscheduler as ps
    script = fix_script(script)
    built = []
    for h in history:
        r = pslib.Real()
        r.run(fix_script(h))
        if r.problem is not None:
            built.append(r)
            if not interleave:
                solve_quietly(r, cfg)
    if interleave:
        real = pslib.Real()
        res = real.run(script)
        for r in built:
            solve_quietly(r, cfg)
        return observe_solve(real, res, script, cfg)
    real = pslib.Real()
    res = real.run(script)
    return observe_solve(real, res, script, cfg)


def solve_quietly(r, cfg):
    import processscheduler as ps
    with smrun.silent():
        try:
            ps.SchedulingSolver(problem=r.problem, max_time=5, **cfg).solve()
        except Exception:  # noqa: BLE001
            pass


def observe_solve(real, res, script, cfg):
    import processscheduler as ps
    out = {"results": res}
    if real.problem is None:
        return out
    with smrun.silent():
        try:
            s = ps.SchedulingSolver(problem=real.problem, max_time=10, **cfg)
            s.initialize()
            out["assertions"] = z3walk.canon([z3walk.sx(a) for a in s._solver.assertions()])
            own = list(s._solver.assertions())
            import time
            t0 = time.time()
            sol = s.solve()
            out["wall"] = time.time() - t0
        except Exception as e:  # noqa: BLE001
            out["raised"] = f"{type(e).__name__}: {e}"[:200]
            return out
    out["verdict"] = bool(sol)
    if sol:
        setup = smrun.objective_setup(real, cfg, script)
        if setup is not None and cfg.get("optimizer", "incremental") == "incremental" or setup is not None and len(real.problem.objectives) == 1:
            try:
                out["objective"] = smrun.value_of(s._model, setup[0])
            except Exception:  # noqa: BLE001
                pass
        out["valid"] = not smrun.invalid_against(own, s._model)
    else:
        chk = solver_with(own, 10000)
        out["base_status"] = str(chk.check())
    return out


def fresh_observe(script, cfg):
    job = json.dumps({"script": script, "cfg": cfg}, default=list)
    env = dict(os.environ)
    p = subprocess.run([sys.executable, "-c", HIST_CHILD % VERIF], input=job, capture_output=True, text=True, env=env,
                       timeout=300, cwd=VERIF)
    if p.returncode != 0:
        raise RuntimeError("fresh interpreter failed: " + p.stderr[-400:])
    return json.loads(p.stdout.strip().splitlines()[-1])


# ------------------------------------------------------------------------------ entry point
def in_renumber_theorem(driver, script, script2):
    """do the Lean models of the two scripts meet every hypothesis of `C14_tasks_order_verdict` (the executable test
    `State.tasksOrderTheoremB`, proved sufficient by `tasksOrderTheoremB_sound`: same task declarations up to their numbers,
    same workers and requirement log, constraints of corresponding meaning, both inside the exactness fragment, delays
    below the task numbers)?  Evaluated by the driver on this very pair."""
    if driver is None:
        return False
    try:
        driver.reset()
        for d in script:
            ln = pslib.to_line(d)
            if ln is not None:
                driver.send(ln)
        driver.send("(mark)")
        driver.reset()
        for d in script2:
            ln = pslib.to_line(d)
            if ln is not None:
                driver.send(ln)
        return driver.send_multi("(tasks-order-theorem)")[1] == ["true"]
    except Exception:  # noqa: BLE001
        return False


def run_c14(script, rng, summary, driver=None):
    from harness import gen
    mode = rng.choice(["rename", "permute", "permute", "history"])
    if sum(1 for d in script if d["op"] == "objective") >= 2 and rng.random() < 0.7:
        mode = "permute"        # several objectives: their declaration order is what can matter (history skips them)
    realA, resA = build(script)
    if realA.problem is None:
        return None
    key = "run" + str(hash(str((script, mode))))
    if mode == "rename":
        names = names_of(script)
        ren = fresh_names(rng, names)
        script2 = rename_script(script, ren)
        realB, resB = build(script2)
        if resA != resB:
            return {"what": "renaming changes which declarations are accepted", "renaming": ren, "twin": script2,
                    "results": [resA, resB]}
        A, B, v = both_assertions(realA, realB)
        if v:
            return dict(v, mode="rename", renaming=ren, twin=script2)
        if A is None:
            count(summary, "run_c14_both_raise")
            return None
        if any(z3.is_quantifier(a) for a in A + B):
            count(summary, "run_c14_skipped_quantifiers")
            return None
        count(summary, "run_c14_rename")
        summary["nontrivial"].append(key)
        v = compare_builds(realA, A, realB, B, ren, None, script, script2=script2)
        if v == "unknown":
            count(summary, "run_c14_unknown")
            return None
        if v:
            return dict(v, mode="rename", renaming=ren, twin=script2)
        return None
    if mode == "permute":
        region = parking_leak_region(script)
        if region:
            count(summary, "run_c14_permute_skipped_known_region:" + region)
            return None
        script2, cmap, what = permute_script(script, rng)
        script2, moved = permute_indicators(script2, rng)
        if moved:
            what.append("indicator")
        if not what:
            count(summary, "run_c14_permute_identity")
            return None
        realB, resB = build(script2)
        if sorted(resA) != sorted(resB) or any(r != "ok" for r in resB):
            count(summary, "run_c14_permute_rejected")
            return None
        A, B, v = both_assertions(realA, realB)
        if v:
            return dict(v, mode="permute", permuted=what, twin=script2)
        if A is None:
            count(summary, "run_c14_both_raise")
            return None
        if any(z3.is_quantifier(a) for a in A + B):
            count(summary, "run_c14_skipped_quantifiers")
            return None
        ndecl = sum(1 for d in script if d["op"] == "constraint")
        if len(realA.problem.constraints) != ndecl or len(realB.problem.constraints) != ndecl:
            cmap = False
        for w in what:
            count(summary, "run_c14_permute_" + w)
        summary["nontrivial"].append(key)
        inside = "task" in what and in_renumber_theorem(driver, script, script2)
        if inside:
            # the Lean models of the two declaration orders meet every hypothesis of the theorem (checked by evaluation on
            # this pair): it guarantees the same verdict and the same admitted schedules for the models
            count(summary, "run_c14_permute_task_pairs_inside_C14_tasks_order_verdict")
        v = compare_builds(realA, A, realB, B, {}, cmap, script, script2=script2)
        if inside and isinstance(v, dict):
            v = dict(v, contradicts="C14_tasks_order_verdict (PS/Theorems/Renumber.lean) for the model of this script: "
                                    "the real encoder differs from the model on it")
        if v == "unknown":
            count(summary, "run_c14_unknown")
            return None
        if v:
            return dict(v, mode="permute", permuted=what, twin=script2)
        return None
    # history: unrelated problems (same element names on purpose) built and solved before, same configuration
    cfg = rng.choice([{}, {}, {"logics": "QF_LIA"}, {"optimizer": "optimize"}, {"debug": True}, {"logics": "QF_IDL"},
                      {"random_values": True}, {"parallel": True}])
    if cfg.get("logics") == "QF_IDL" and not smallfrag(script):
        cfg = {"logics": "QF_LIA"}
    if len(realA.problem.objectives) > 1:
        count(summary, "run_c14_history_skipped_multiobjective")
        return None
    hist = []
    for _ in range(rng.randint(1, 3)):
        hs, _k = gen.gen_script(rng.randrange(10 ** 9), rng.choice(["core", "taskc", "obj", "buffer"]), size=rng.choice([4, 6, 8]),
                                simple=True)
        hist.append([x for x in hs if x["op"] != "solver"])
    count(summary, "run_c14_history")
    count(summary, "run_c14_history_cfg:" + (",".join(f"{k}={v}" for k, v in cfg.items()) or "default"))
    summary["nontrivial"].append(key)
    interleave = rng.random() < 0.4
    if interleave:
        count(summary, "run_c14_history_interleaved")
    after = observe(json.loads(json.dumps(script, default=list)), cfg, json.loads(json.dumps(hist, default=list)), interleave)
    fresh = fresh_observe(script, cfg)
    diffs = []
    # "no schedule returned" while z3 answers `unknown` on the assertions (quantified buffer rules, the time budget) is
    # not a verdict: only the accepted declarations and the assertion lists are compared then
    gave_up = any(o.get("verdict") is False and o.get("base_status") == "unknown" for o in (after, fresh))
    if gave_up:
        count(summary, "run_c14_history_verdict_not_compared_z3_unknown")
    for k in ("results", "assertions", "raised") + (() if gave_up else ("verdict", "base_status", "valid")):
        if after.get(k) != fresh.get(k):
            diffs.append(k)
    if after.get("objective") != fresh.get("objective") and definite(after) and definite(fresh):
        if cfg.get("optimizer") == "optimize":
            # z3.Optimize's answer varies from call to call (findings F44, F46): not a difference caused by history
            count(summary, "run_c14_history_builtin_optimum_not_compared_z3_unstable")
        else:
            diffs.append("objective")
    if diffs:
        return {"what": "the problem behaves differently after other problems were built and solved in the same "
                        "interpreter than in a fresh one: " + ", ".join(diffs), "mode": "history", "cfg": cfg, "interleaved": interleave,
                "history": hist, "fresh": {k: v for k, v in fresh.items() if k != "assertions"},
                "after": {k: v for k, v in after.items() if k != "assertions"}}
    return None


def definite(o):
    # the incremental optimiser is anytime: its value is only comparable when it stopped well before max_time
    return o.get("verdict") is not None and not o.get("raised") and o.get("wall", 99) < 4


def smallfrag(script):
    return all(d["op"] in ("problem", "task", "constraint") and (d["op"] != "constraint" or d["c"][0] in
               ("startAt", "endAt", "startAfter", "endBefore", "precedence", "startSynced", "endSynced"))
               and (d["op"] != "task" or (d["kind"][0] == "fixed" and not d.get("optional")))
               for d in script)
