"""Indicators and objectives."""


def to_line(d):
    raise ValueError(f"unknown op {d['op']}")


def do(real, d):
    raise ValueError(f"unknown op {d['op']}")
