"""Indicators and objectives."""
import processscheduler as ps

from harness.pslib import q, opt, lst
from harness import pslib_ext as X


def ind_sx(c):
    k = c[0]
    if k == "expr":
        return f"(expr {q(c[1])} {X.term_sx(c[2])} {opt(c[3], X.pair)})"
    if k in ("utilization", "nbTasksAssigned", "idle", "maxBuffer", "minBuffer"):
        return f"({k} {q(c[1])})"
    if k in ("tardiness", "earliness", "nbTardy", "maxLateness"):
        return f"({k} {opt(c[1], lambda l: lst(l, q))})"
    if k == "resourceCost":
        return f"(resourceCost {lst(c[1], q)})"
    raise ValueError(k)


def obj_sx(c):
    k = c[0]
    if k in ("maximizeIndicator", "minimizeIndicator"):
        return f"({k} {c[1]} {c[2]})"
    if k in ("makespan", "priorities", "startEarliest"):
        return f"({k})"
    if k in ("flowtime", "startLatest", "greatestStart"):
        return f"({k} {opt(c[1], lambda l: lst(l, q))})"
    if k in ("resourceUtilization", "maximizeMaxBuffer", "minimizeMaxBuffer"):
        return f"({k} {q(c[1])})"
    if k == "resourceCost":
        return f"(resourceCost {lst(c[1], q)})"
    if k == "flowtimeSingleResource":
        return f"(flowtimeSingleResource {q(c[1])} {opt(c[2], X.pair)})"
    raise ValueError(k)


def to_line(d):
    if d["op"] == "indicator":
        return f"(indicator {ind_sx(d['i'])})"
    if d["op"] == "objective":
        return f"(objective {obj_sx(d['o'])})"
    raise ValueError(f"unknown op {d['op']}")


def sync_indicators(real):
    real.indicators = list(real.problem.indicators.values())


def do(real, d):
    T = real.tasks
    tl = lambda names: None if names is None else [T[n] for n in names]
    try:
        if d["op"] == "indicator":
            c = d["i"]
            k = c[0]
            if k == "expr":
                kw = {"bounds": tuple(c[3])} if c[3] is not None else {}
                ps.IndicatorFromMathExpression(name=c[1], expression=X.term_z3(real, c[2]), **kw)
            elif k == "utilization":
                ps.IndicatorResourceUtilization(resource=X.resource_named(real, c[1]))
            elif k == "nbTasksAssigned":
                ps.IndicatorNumberTasksAssigned(resource=X.resource_named(real, c[1]))
            elif k == "tardiness":
                ps.IndicatorTardiness(list_of_tasks=tl(c[1]))
            elif k == "earliness":
                ps.IndicatorEarliness(list_of_tasks=tl(c[1]))
            elif k == "nbTardy":
                ps.IndicatorNumberOfTardyTasks(list_of_tasks=tl(c[1]))
            elif k == "maxLateness":
                ps.IndicatorMaximumLateness(list_of_tasks=tl(c[1]))
            elif k == "resourceCost":
                ps.IndicatorResourceCost(list_of_resources=[X.resource_named(real, r) for r in c[1]])
            elif k == "idle":
                ps.IndicatorResourceIdle(resource=X.resource_named(real, c[1]))
            elif k == "maxBuffer":
                ps.IndicatorMaxBufferLevel(buffer=real.buffers[c[1]])
            elif k == "minBuffer":
                ps.IndicatorMinBufferLevel(buffer=real.buffers[c[1]])
            else:
                raise ValueError(k)
        elif d["op"] == "objective":
            c = d["o"]
            k = c[0]
            inds = list(real.problem.indicators.values())
            if k == "maximizeIndicator":
                ps.ObjectiveMaximizeIndicator(target=inds[c[1]], weight=c[2])
            elif k == "minimizeIndicator":
                ps.ObjectiveMinimizeIndicator(target=inds[c[1]], weight=c[2])
            elif k == "makespan":
                ps.ObjectiveMinimizeMakespan()
            elif k == "flowtime":
                ps.ObjectiveMinimizeFlowtime(**({"list_of_tasks": tl(c[1])} if c[1] is not None else {}))
            elif k == "priorities":
                ps.ObjectivePriorities()
            elif k == "startLatest":
                ps.ObjectiveTasksStartLatest(**({"list_of_tasks": tl(c[1])} if c[1] is not None else {}))
            elif k == "startEarliest":
                ps.ObjectiveTasksStartEarliest()
            elif k == "greatestStart":
                ps.ObjectiveMinimizeGreatestStartTime(**({"list_of_tasks": tl(c[1])} if c[1] is not None else {}))
            elif k == "resourceUtilization":
                ps.ObjectiveMaximizeResourceUtilization(resource=X.resource_named(real, c[1]))
            elif k == "resourceCost":
                ps.ObjectiveMinimizeResourceCost(list_of_resources=[X.resource_named(real, r) for r in c[1]])
            elif k == "flowtimeSingleResource":
                ps.ObjectiveMinimizeFlowtimeSingleResource(
                    resource=X.resource_named(real, c[1]), **({"time_interval": tuple(c[2])} if c[2] is not None else {}))
            elif k == "maximizeMaxBuffer":
                ps.ObjectiveMaximizeMaxBufferLevel(buffer=real.buffers[c[1]])
            elif k == "minimizeMaxBuffer":
                ps.ObjectiveMinimizeMaxBufferLevel(buffer=real.buffers[c[1]])
            else:
                raise ValueError(k)
        else:
            raise ValueError(f"unknown op {d['op']}")
    finally:
        if real.problem is not None:
            sync_indicators(real)
