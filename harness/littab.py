"""C18, the words a `Literal` field accepts.

The expected field table of `PS/Theorems/C18.lean` (proved equal to the table generated from /repo on every run) lists,
for every pydantic model class, the words each `Literal` field accepts (`lit:lax|strict`, ...).  This search calls the real
constructors with every word of a small vocabulary — all kinds / modes / options used anywhere in the package plus a few
near misses — and reports a constructor call whose accept / reject decision differs from the table: a concrete failing
input for a loosened or tightened `Literal`."""
import os
import re

import processscheduler as ps
import processscheduler.base

VERIF = os.path.dirname(os.path.dirname(os.path.abspath(__file__)))


def expected_literals():
    """(class, field) -> set of accepted words, read from the Lean file"""
    txt = open(os.path.join(VERIF, "lean", "PS", "Theorems", "C18.lean")).read()
    txt = txt[txt.index("def expectedFieldTable"):]
    txt = txt[:txt.index("theorem fieldTable_meets_spec")]
    out = {}
    for cls, field, kind in re.findall(r'\("([^"]+)", "([^"]+)", "lit:([^"]*)", 0\)', txt):
        out[(cls, field)] = set(kind.split("|"))
    return out


def fresh():
    processscheduler.base.active_problem = None
    pb = ps.SchedulingProblem(name="lit", horizon=20)
    t1 = ps.FixedDurationTask(name="T1", duration=2)
    t2 = ps.FixedDurationTask(name="T2", duration=1, optional=True)
    w = ps.Worker(name="W")
    w2 = ps.Worker(name="W2")
    t1.add_required_resource(w)
    t2.add_required_resource(w)
    c = ps.TaskStartAt(task=t1, value=3, optional=True)
    return pb, t1, t2, w, w2, c


RECIPES = {
    ("TaskStartAfter", "kind"): lambda x, k: ps.TaskStartAfter(task=x[1], value=1, kind=k),
    ("TaskEndBefore", "kind"): lambda x, k: ps.TaskEndBefore(task=x[1], value=9, kind=k),
    ("TaskPrecedence", "kind"): lambda x, k: ps.TaskPrecedence(task_before=x[1], task_after=x[2], kind=k),
    ("OrderedTaskGroup", "kind"): lambda x, k: ps.OrderedTaskGroup(list_of_tasks=[x[1], x[2]], time_interval=(0, 10), kind=k),
    ("ResourceTasksDistance", "mode"): lambda x, k: ps.ResourceTasksDistance(resource=x[3], distance=1, mode=k),
    ("WorkLoad", "kind"): lambda x, k: ps.WorkLoad(resource=x[3], dict_time_intervals_and_bound={(0, 4): 2}, kind=k),
    ("ScheduleNTasksInTimeIntervals", "kind"): lambda x, k: ps.ScheduleNTasksInTimeIntervals(
        list_of_tasks=[x[1], x[2]], nb_tasks_to_schedule=1, list_of_time_intervals=[[0, 8]], kind=k),
    ("ForceScheduleNOptionalTasks", "kind"): lambda x, k: ps.ForceScheduleNOptionalTasks(
        list_of_optional_tasks=[x[2]], nb_tasks_to_schedule=1, kind=k),
    ("ForceApplyNOptionalConstraints", "kind"): lambda x, k: ps.ForceApplyNOptionalConstraints(
        list_of_optional_constraints=[x[5]], nb_constraints_to_apply=1, kind=k),
    ("SelectWorkers", "kind"): lambda x, k: ps.SelectWorkers(list_of_workers=[x[3], x[4]], nb_workers_to_select=1, kind=k),
    ("SchedulingSolver", "optimizer"): lambda x, k: ps.SchedulingSolver(problem=x[0], optimizer=k),
    ("SchedulingSolver", "optimize_priority"): lambda x, k: ps.SchedulingSolver(problem=x[0], optimize_priority=k),
}


def run(count=None):
    """returns (number of constructor calls, list of violation dicts)"""
    exp = expected_literals()
    vocab = set()
    for (cls, field), words in exp.items():
        if (cls, field) in RECIPES:
            vocab |= words
    vocab |= {"", "LAX", "Strict", "tight ", "none", "all", "minimum", "weights", "equal", "le", "ge"}
    viols, n = [], 0
    for key, make in sorted(RECIPES.items()):
        if key not in exp:
            viols.append({"what": f"{key[0]}.{key[1]} is not a Literal field of the expected table any more"})
            continue
        for word in sorted(vocab):
            saved = processscheduler.base.active_problem
            try:
                x = fresh()
                try:
                    make(x, word)
                    accepted = True
                except Exception:  # noqa: BLE001
                    accepted = False
            finally:
                processscheduler.base.active_problem = saved
            n += 1
            if accepted != (word in exp[key]):
                viols.append({"what": f"{key[0]}({key[1]}={word!r}) is " + ("accepted" if accepted else "rejected") +
                                      f" at creation; the documented words are {sorted(exp[key])}",
                              "constructor": key[0], "field": key[1], "word": word})
    return n, viols
