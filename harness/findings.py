"""Replay of the committed known findings (known_findings.json); never written at run time."""


def replay_known(prop, rep, data):
    for f in data.get("findings", []):
        if f.get("property") != prop or f.get("status") != "known":
            continue
        # each finding kind has its own replayer, registered here when the finding is recorded
        fn = REPLAYERS.get(f.get("replayer"))
        if fn is None:
            continue
        still = fn(f)
        if still:
            rep.known.append(f["what"])


REPLAYERS = {}
