"""Replay of the committed known findings (known_findings.json); never written at run time.

Each finding carries a script (the same declaration format as everywhere else) and an
expectation about the REAL code that constitutes the defect:
  {"kind": "decl",  "index": k, "result": "(err X)"}   the k-th declaration answers that
  {"kind": "solve", "result": "sat" | "unsat"}           z3 verdict on the emitted assertions
  {"kind": "calls", ...}                                  a sequence of public solver calls
On every run the finding is replayed; if the real code still behaves that way the check prints
`KNOWN-FINDING: property=<id> <what>`; if not, nothing is printed for it."""
import z3

from harness import pslib, smrun


def reproduces(f):
    real = pslib.Real()
    res = real.run(f["script"])
    e = f["expect"]
    if e["kind"] == "decl":
        return res[e["index"]] == e["result"]
    if e["kind"] == "solve":
        if real.problem is None:
            return False
        s = real.initialize()
        chk = z3.Solver()
        chk.set("timeout", 20000)
        chk.add(s._solver.assertions())
        return str(chk.check()) == e["result"]
    if e["kind"] == "suboptimal":
        # the configured optimiser returns a schedule although a strictly better valid one exists
        # (z3's answer varies from call to call inside one process: repeated up to `repeat` times)
        for _ in range(e.get("repeat", 1)):
            with smrun.silent():
                r = smrun.run_real_solve(f["script"], dict(e["cfg"]))
            if bool(r.get("result")) and r.get("better_status") == "sat":
                return True
        return False
    if e["kind"] == "optimum_pair":
        # the optimal value of the declared objective for two declaration orders of one problem
        from harness import c14

        def opt(script):
            r = pslib.Real()
            r.run(script)
            A = list(r.initialize()._solver.assertions())
            setup = smrun.objective_setup(r, {}, script)
            return c14.optimum(A, *setup)
        return opt(f["script"]) == e["value"] and opt(f["script2"]) == e["value2"]
    if e["kind"] == "permute_pair":
        # two declaration orders of one problem: some schedule admitted for the first (task times, flags, selections)
        # is rejected for the second
        from harness import c14
        ra, _ = c14.build(f["script"])
        rb, _ = c14.build(f["script2"])
        A, B, v = c14.both_assertions(ra, rb)
        if v or A is None:
            return False
        v = c14.compare_builds(ra, A, rb, B, {}, False, f["script"], k=e.get("k", 8))
        return isinstance(v, dict) and "admitted" in v.get("what", "")
    if e["kind"] == "order_pair":
        def verdict(script):
            r = pslib.Real()
            r.run(script)
            chk = z3.Solver()
            chk.set("timeout", 20000)
            chk.add(r.initialize()._solver.assertions())
            return str(chk.check())
        return verdict(f["script"]) == e["result"] and verdict(f["script2"]) == e["result2"]
    if e["kind"] == "excel_raises":
        import os, shutil, tempfile
        import processscheduler as ps
        with smrun.silent():
            sol = ps.SchedulingSolver(problem=real.problem).solve()
        if not sol:
            return False
        tmp = tempfile.mkdtemp(prefix="psfind_")
        try:
            sol.to_excel_file(os.path.join(tmp, "x.xlsx"))
            return False
        except Exception as ex:  # noqa: BLE001
            return type(ex).__name__ == e["raises"]
        finally:
            shutil.rmtree(tmp, ignore_errors=True)
    if e["kind"] in ("solution", "excel_name_erased"):
        import processscheduler as ps
        with smrun.silent():
            sol = ps.SchedulingSolver(problem=real.problem).solve()
        if not sol:
            return False
        if e["kind"] == "solution":
            t = sol.tasks[e["task"]]
            return t.scheduled == e["scheduled"] and bool(t.assigned_resources) == e["assigned_nonempty"]
        import os, shutil, tempfile
        from harness import outch
        tmp = tempfile.mkdtemp(prefix="psfind_")
        try:
            fn = os.path.join(tmp, "x.xlsx")
            sol.to_excel_file(fn)
            cells = outch.read_xlsx(fn)["GANTT Task view"][0]
            return e["task"] not in cells.values()
        finally:
            shutil.rmtree(tmp, ignore_errors=True)
    if e["kind"] == "calls":
        import processscheduler as ps
        with smrun.silent():
            s = ps.SchedulingSolver(problem=real.problem, **e.get("cfg", {}))
            try:
                for op in e["ops"]:
                    getattr(s, op)()
            except Exception as ex:  # noqa: BLE001
                return type(ex).__name__ == e.get("raises")
        return e.get("raises") is None
    return False


def replay_known(prop, rep, data):
    for f in data.get("findings", []):
        if prop not in f.get("properties", []) or f.get("status") != "known":
            continue
        try:
            still = reproduces(f)
        except Exception:  # noqa: BLE001
            still = False
        rep.count("known_findings_replayed")
        if still:
            rep.known.append(f"{f['id']}: {f['what']}")
