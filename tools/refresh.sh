#!/bin/bash
# re-run every claimed quick check on the clean /repo tree and rewrite the evidence files
cd "$(dirname "$0")/.."
if [ -n "$(git -C /repo status --porcelain --untracked-files=no)" ]; then echo "/repo has modifications: refusing"; exit 1; fi
ids=$(python3 -c "import json;print(' '.join(c['property_id'] for c in json.load(open('MANIFEST.json'))['checks']))")
rc=0
for id in $ids; do ./check $id --tier quick | tail -1 || rc=1; done
python3-vt - <<'PY'
import json,jsonschema,glob
sch=json.load(open('/root/.vp/EVIDENCE.schema.json'))
for f in sorted(glob.glob('evidence/*.json')):
    e=json.load(open(f)); jsonschema.validate(e,sch)
    c=e['coverage']; assert c['obligations']==c['discharged'], f
jsonschema.validate(json.load(open('MANIFEST.json')), json.load(open('/root/.vp/MANIFEST.schema.json')))
print("evidence + manifest valid")
PY
exit $rc
