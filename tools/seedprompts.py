#!/usr/bin/env python3
"""tools/seedprompts.py <round-file.json> — creates one scratch worktree of /repo per seed id under /tmp/wt/<id> and writes
the prompt handed to an independent sub-agent to /tmp/wt/<id>.prompt.  The sub-agent gets the property text, its worktree and
an optional hint about which region to touch; nothing from /verif.  round-file: {"<id>": "<hint>", ...}"""
import json, os, subprocess, sys
props = {json.loads(l)['id']: json.loads(l) for l in open('/verif/properties.jsonl')}
BASE = '''You are helping evaluate a verification tool by producing a realistic *breaking change* (a seeded bug) for the open-source Python library tpaviot/ProcessScheduler (a scheduler that encodes tasks/resources/constraints as Z3 SMT formulas).

Your scratch git worktree of the library is: {wt}
Work ONLY inside that directory (never touch /repo or /verif, never read /verif). Python to use: /venv/bin/python . To be sure the library is imported from your worktree, always run things as `cd {wt} && PYTHONPATH={wt} /venv/bin/python ...` and check `processscheduler.__file__` starts with {wt}. No network is available.

The semantic property that the library is supposed to satisfy (your change must BREAK it):

--- PROPERTY {pid}: {title} ---
{statement}
--- end of property ---

Task: make a small source change to the library (files under {wt}/processscheduler/) that
 1. still imports/compiles, and the existing test suite still passes with it: run
    `cd {wt} && PYTHONPATH={wt} /venv/bin/python -m pytest -q -p no:cacheprovider --timeout=900 test/ --deselect test/test_plot.py::test_gantt_plotly_base --deselect test/test_plot.py::test_gantt_plotly_raise_wrong_type --deselect test/test_plot.py::test_gantt_plotly_with_indicators_figsize --deselect test/test_plot.py::test_gantt_with_buffers`
    (takes 2-4 minutes; those 4 plotly tests fail regardless and are excluded; expected: 337 passed; the machine is shared and busy, so if a single solver-time-limit test fails once under load, re-run it alone before concluding);
 2. makes the property above false in some situation;
 3. is SUBTLE: it must need something specific to manifest — an unusual but legitimate input (boundary values, a particular combination of options/element kinds, zero-length or optional elements, several elements interacting, a multi-step sequence of calls, a particular ordering), or two cooperating sites that each look fine alone. It must NOT be something ordinary use would expose at once (e.g. do not break every problem). Prefer a change that looks like a plausible refactoring slip or "optimisation" a maintainer could really make.{hint}

Deliverables (write them in {wt}/_seed/):
 - `patch.diff` : output of `git -C {wt} diff -- processscheduler` (the change only; do not include _seed/ or test files),
 - `demo.py` : a small standalone program (uses only the public API of processscheduler plus, if useful, z3) that exits 0 and prints PASS when the property holds in the situation it builds, and exits 1 printing FAIL when it is violated. It must exit 1 WITH your change and exit 0 WITHOUT it (verify both: `git diff -- processscheduler > /tmp/p_{wid}; git checkout -- processscheduler; run; git apply /tmp/p_{wid}`). The demo should check the property itself (e.g. verify the returned schedule against the documented meaning, or compare against an independent computation / a fresh process), not just compare with hard-coded magic output. It must be deterministic (no dependence on wall-clock timing or machine load).
 - `notes.md` : first line = one-sentence description of the change; then what it needs in order to manifest, and the exact commands you ran with their results (test suite summary line, demo exit codes with and without the change).
Leave the change APPLIED in the worktree when you finish (restore any tracked files the test run rewrote, e.g. excavator_*.xlsx, tst.csv, with git checkout). Do not commit. In your final answer give the one-sentence description, what is needed to manifest, and confirm the three verifications (tests pass with change, demo fails with change, demo passes without).'''
hints = json.load(open(sys.argv[1]))
os.makedirs('/tmp/wt', exist_ok=True)
for wid, h in hints.items():
    pid = wid.split('-')[0]; p = props[pid]
    wt = f'/tmp/wt/{wid}'
    subprocess.run(['git', '-C', '/repo', 'worktree', 'add', '-q', '--detach', wt, 'HEAD'], check=True)
    open(f'/tmp/wt/{wid}.prompt', 'w').write(BASE.format(wt=wt, wid=wid, pid=pid, title=p['title'], statement=p['statement'], hint=(' ' + h) if h else ''))
    print(wid, end=' ')
print('prompts ok')
