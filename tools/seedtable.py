#!/usr/bin/env python3
"""tools/seedtable.py — rewrites the table of seeded changes in DESIGN.md (between the seedtable markers) from
seeded/<id>/{meta.json, patch.diff, notes.md} as left by tools/confirm_seed.sh and tools/seedmatrix.py."""
import json, os, re
VERIF = os.path.dirname(os.path.dirname(os.path.abspath(__file__)))
rows = ["| seed | file | change (first line of the sub-agent's note) | confirmed | reported by | failing input |", "|---|---|---|---|---|---|"]
tot = found = rep = 0
for sid in sorted(os.listdir(os.path.join(VERIF, "seeded"))):
    d = os.path.join(VERIF, "seeded", sid)
    m = json.load(open(os.path.join(d, "meta.json")))
    patch = open(os.path.join(d, "patch.diff")).read()
    files = sorted(set(l.split(" b/")[-1].replace("processscheduler/", "") for l in patch.splitlines() if l.startswith("diff --git")))
    note = m.get("change") or open(os.path.join(d, "notes.md")).read().strip().splitlines()[0]
    note = re.sub(r"\s+", " ", note.strip().lstrip("# ")).replace("|", "/")
    if len(note) > 210:
        note = note[:207] + "…"
    c = m.get("confirmed_by_me", {})
    conf = "yes" if (c.get("patch_applies") and c.get("demo_exit_clean_tree") == 0 and c.get("demo_exit_with_patch") not in (0, None, -1)
                     and "passed" in str(c.get("existing_test_suite_with_patch"))) else "?"
    det = m.get("detected_by") or []
    chans = ", ".join(dict.fromkeys(x.get("channel", "?") for x in det)) or "—"
    fi = "yes" if any(x.get("failing_input_found") for x in det) else ("no-failing-input-found" if det else "MISSED")
    tot += 1
    rep += bool(det)
    found += fi == "yes"
    rows.append(f"| {sid} | {', '.join(files)} | {note} | {conf} | {chans} | {fi} |")
summary = f"Last full run of `tools/seedmatrix.py` (quick tier, seed 0): {rep} of {tot} seeded changes reported by the check of their property, {found} with a concrete failing input."
p = os.path.join(VERIF, "DESIGN.md")
s = open(p).read()
b, e = "<!-- seedtable:begin -->", "<!-- seedtable:end -->"
assert b in s and e in s
s = s[:s.index(b) + len(b)] + "\n" + summary + "\n\n" + "\n".join(rows) + "\n" + s[s.index(e):]
open(p, "w").write(s)
print(summary)
