#!/usr/bin/env python3
"""tools/seedmatrix.py [seed-id ...] — applies every seeded change to /repo in turn, runs the quick check of its
property, records which channel reported it in seeded/<id>/meta.json (detected_by) and reverts the tree."""
import json, os, re, subprocess, sys
VERIF = os.path.dirname(os.path.dirname(os.path.abspath(__file__)))
os.chdir(VERIF)
ids = sys.argv[1:] or sorted(os.listdir("seeded"))
REPO = os.environ.get("PS_REPO", "/repo")     # a snapshot of /repo may be patched instead (vp run --with-repo)
SEED = os.environ.get("VERIF_SEED", "0")      # with a seed other than 0 the result goes to meta["detected_by_seed<k>"]
if subprocess.run(f"git -C {REPO} status --porcelain --untracked-files=no", shell=True, capture_output=True, text=True).stdout.strip():
    sys.exit(f"{REPO} dirty")
for sid in ids:
    prop = sid.split("-")[0]
    patch = os.path.join(VERIF, "seeded", sid, "patch.diff")
    if subprocess.run(["git", "-C", REPO, "apply", patch]).returncode != 0:
        print(sid, "patch does not apply"); continue
    try:
        p = subprocess.run(["./check", prop, "--tier", "quick"], capture_output=True, text=True, timeout=1500)
        out = p.stdout + p.stderr
    finally:
        subprocess.run(f"git -C {REPO} checkout -- .", shell=True)
    viol = re.findall(r"^VIOLATION property=(\S+) replay=(\S+)(.*)$", out, re.M)
    det = []
    for pr, rp, rest in viol[:3]:
        try:
            r = json.load(open(rp))
            det.append({"check": pr, "exit": p.returncode, "channel": r.get("kind", "build/audit"),
                        "what": (r.get("what") or r.get("no_longer_checks") or "")[:300] if not isinstance(r.get("no_longer_checks"), list) else "; ".join(r["no_longer_checks"])[:300],
                        "failing_input_found": "no-failing-input-found" not in rest})
        except Exception as e:  # noqa: BLE001
            det.append({"check": pr, "exit": p.returncode, "channel": "?", "what": str(e)})
    mp = os.path.join("seeded", sid, "meta.json")
    meta = json.load(open(mp))
    if SEED == "0":
        meta["detected_by"] = det if det else None
        meta["detection_run"] = {"cmd": f"./check {prop} --tier quick", "exit": p.returncode}
    else:
        meta["detected_by_seed" + SEED] = [{"channel": d.get("channel"), "failing_input_found": d.get("failing_input_found")} for d in det] or None
    json.dump(meta, open(mp, "w"), indent=1)
    print(sid, "->", p.returncode, [(d["channel"], d["failing_input_found"]) for d in det if "failing_input_found" in d], flush=True)
