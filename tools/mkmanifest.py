#!/usr/bin/env python3
"""Regenerates MANIFEST.json from harness/props.py (claimed properties) and tools/manifest_meta.json."""
import json, os, sys
VERIF = os.path.dirname(os.path.dirname(os.path.abspath(__file__)))
sys.path.insert(0, VERIF)
os.environ.setdefault("PS_REPO", "/repo")
meta = json.load(open(os.path.join(VERIF, "tools", "manifest_meta.json")))
all_ids = [json.loads(l)["id"] for l in open(os.path.join(VERIF, "properties.jsonl"))]
claimed = meta["claimed"]
checks = []
for pid in all_ids:
    if pid not in claimed:
        continue
    m = claimed[pid]
    checks.append({
        "property_id": pid,
        "quick_cmd": f"./check {pid} --tier quick",
        "thorough_cmd": f"./check {pid} --tier thorough",
        "evidence_file": f"evidence/{pid}.json",
        "replay_cmd_template": f"./check {pid} --replay {{path}}",
        "engine": "lean-ps",
        "level_claimed": {"category": "proof", "text": m["text"], "design_ref": m.get("design_ref", "DESIGN.md §6")},
        "level_note": m["note"],
        "technique": m["technique"],
    })
man = {
    "version": 1,
    "setup_cmd": "cd lean && lake build PS driver",
    "hooks": {"guard": "PROCESSSCHEDULER_VERIF", "enable": "no source hooks are needed: the harness imports /repo's working tree in-process and observes the solver by substituting the name z3 inside processscheduler.solver",
              "baseline_off_cmd": "cd /repo && /venv/bin/python -m pytest -ra -q -p no:cacheprovider --timeout=900 --continue-on-collection-errors",
              "source_commits": [], "add_only": True},
    "engines": [{"name": "lean-ps", "path": "lean/", "serves_properties": sorted(claimed),
                 "kind_free_text": "Lean 4 model of the encoder / solver object / outputs with theorems per property (lean/PS/Theorems), tied to /repo by differential correspondence channels (harness/)"}],
    "checks": checks,
    "notes": meta.get("notes", ""),
    "not_applicable": [{"property_id": p, "reason": meta["unclaimed"].get(p, "check not built yet")} for p in all_ids if p not in claimed],
}
json.dump(man, open(os.path.join(VERIF, "MANIFEST.json"), "w"), indent=1)
print("claimed:", sorted(claimed))
