#!/bin/bash
# tools/seedsweep.sh "<seeds>" [tier] [props...] : run the checks under several VERIF_SEED values on the clean tree
cd "$(dirname "$0")/.."
seeds=${1:-"0 1 2 3"}; tier=${2:-quick}; shift; shift
ids=${@:-$(python3 -c "import json;print(' '.join(c['property_id'] for c in json.load(open('MANIFEST.json'))['checks']))")}
for s in $seeds; do for id in $ids; do
  out=$(VERIF_SEED=$s ./check $id --tier $tier 2>&1 | grep -v "^WARNING\|^KNOWN-FINDING"); rc=$?
  echo "seed=$s $id: $(echo "$out" | tail -2 | tr '\n' ' ')"
done; done
