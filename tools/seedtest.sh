#!/bin/bash
# usage: tools/seedtest.sh <seed-id> [property ...]   applies seeded/<id>/patch.diff to /repo, runs the checks, reverts
cd "$(dirname "$0")/.."
id=$1; shift
props="$@"; [ -z "$props" ] && props=$(echo $id | cut -d- -f1)
if [ -n "$(git -C /repo status --porcelain --untracked-files=no)" ]; then echo "/repo dirty"; exit 2; fi
git -C /repo apply $PWD/seeded/$id/patch.diff || { echo "patch does not apply"; exit 2; }
for p in $props; do
  out=$(timeout 1200 ./check $p --tier ${TIER:-quick} 2>&1 | grep -E "^(VIOLATION|OK)" | head -2 | tr '\n' ' ')
  echo "$id -> $p: $out"
done
git -C /repo checkout -- .
