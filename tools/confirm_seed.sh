#!/bin/bash
# tools/confirm_seed.sh <seed-id> [src-dir]
# Copies a sub-agent's deliverables (src-dir/{patch.diff,demo.py,notes.md}) into seeded/<id>/ and confirms them in a fresh scratch
# worktree of /repo (outside /repo and /verif): the patch applies, the demonstration exits 0 on the clean tree and non-zero with the
# patch, and the existing test suite (4 always-failing plotly tests deselected) still passes with the patch. Writes seeded/<id>/meta.json.
cd "$(dirname "$0")/.."
id=$1; src=$2
prop=$(echo $id | cut -d- -f1)
mkdir -p seeded/$id
if [ -n "$src" ]; then cp $src/patch.diff $src/demo.py $src/notes.md seeded/$id/ || exit 2; fi
sd=$PWD/seeded/$id
wt=/tmp/confirm_$id
git -C /repo worktree remove --force $wt >/dev/null 2>&1
git -C /repo worktree add --detach $wt HEAD >/dev/null 2>&1 || exit 2
base=$(git -C /repo rev-parse --short HEAD)
cd $wt
applies=false; demo_mut=-1; demo_clean=-1; tests=unknown
if git apply --check $sd/patch.diff 2>/dev/null; then
  applies=true
  PYTHONPATH=$wt timeout 900 /venv/bin/python $sd/demo.py > $wt/.demo_clean.log 2>&1; demo_clean=$?
  git apply $sd/patch.diff
  PYTHONPATH=$wt timeout 900 /venv/bin/python $sd/demo.py > $wt/.demo_mut.log 2>&1; demo_mut=$?
  PYTHONPATH=$wt timeout 1800 /venv/bin/python -m pytest -q -p no:cacheprovider --timeout=900 test/ --deselect test/test_plot.py::test_gantt_plotly_base --deselect test/test_plot.py::test_gantt_plotly_raise_wrong_type --deselect test/test_plot.py::test_gantt_plotly_with_indicators_figsize --deselect test/test_plot.py::test_gantt_with_buffers > $wt/.tests.log 2>&1
  tests=$(tail -1 $wt/.tests.log | tr -d '"=' | sed 's/^ *//;s/ *$//')
fi
cd /tmp
git -C /repo worktree remove --force $wt >/dev/null 2>&1
python3 - "$id" "$prop" "$applies" "$demo_clean" "$demo_mut" "$tests" "$base" "$sd" <<'PY'
import json, sys, os
sid, prop, applies, dc, dm, tests, base, sd = sys.argv[1:]
title = next(json.loads(l)["title"] for l in open("/verif/properties.jsonl") if json.loads(l)["id"] == prop)
notes = open(os.path.join(sd, "notes.md")).read().strip().splitlines()
mp = os.path.join(sd, "meta.json")
meta = json.load(open(mp)) if os.path.exists(mp) else {}
meta.update({"id": sid, "property": prop, "property_title": title,
             "origin": "independent sub-agent given only the property text and a scratch worktree",
             "change": notes[0] if notes else "",
             "needs_to_manifest": "see notes.md (written by the sub-agent)",
             "confirmed_by_me": {"base_commit": base, "patch_applies": applies == "true", "demo_exit_clean_tree": int(dc),
                                 "demo_exit_with_patch": int(dm), "existing_test_suite_with_patch": tests,
                                 "command": "tools/confirm_seed.sh (fresh git worktree of /repo under /tmp; git apply; PYTHONPATH=<wt> "
                                            "/venv/bin/python demo.py on the clean and on the patched tree; pytest test/ with the 4 "
                                            "always-failing plotly tests deselected; worktree removed)"}})
json.dump(meta, open(mp, "w"), indent=1)
ok = applies == "true" and int(dc) == 0 and int(dm) != 0 and "passed" in tests and "failed" not in tests
print(sid, "CONFIRMED" if ok else "NOT-CONFIRMED", applies, dc, dm, tests)
PY
