#!/venv/bin/python
"""tools/covmap.py [n_per_property] — which lines of /repo/processscheduler do the correspondence channels execute?

Runs, in one process and under `coverage`, a slice of the quick-tier work list of every property (ENC / SEM / ACC / SM /
RUN / SOL / OUT items, the same functions `./check` uses) and writes notes/coverage.txt: statement coverage per source
file and the line ranges never executed.  Lines that no channel executes are lines the model is NOT tied to by the
correspondence; the list is what DESIGN.md §10 quotes.  Not a check (nothing is decided here)."""
import os
import sys

VERIF = os.path.dirname(os.path.dirname(os.path.abspath(__file__)))
sys.path.insert(0, VERIF)
import coverage  # noqa: E402

n = int(sys.argv[1]) if len(sys.argv) > 1 else 40
cov = coverage.Coverage(source=["/repo/processscheduler"], data_file=None, config_file=False)
cov.start()
from harness import props  # noqa: E402


class Rep:
    tier, seed = "quick", 0


done = {}
for prop, spec in props.PROPS.items():
    items = props.corpus_items(prop) + props.seeds_for(prop, 0, spec["n"]["quick"], spec["profiles"], "quick")[:n] + \
        props.solver_items(prop, 0, "quick", spec)
    # a slice of every kind of item
    by_kind = {}
    for it in items:
        by_kind.setdefault(it[0], []).append(it)
    sl = [x for k, l in by_kind.items() for x in l[:n]]
    if spec.get("acc_grid"):
        from harness import acc
        sl = [("script", label, script) for label, script in acc.grid()] + sl
    try:
        s = props.run_chunk((prop, "quick", sl))
        done[prop] = (len(sl), len(s["broken"]), len(s["violations"]))
    except Exception as e:  # noqa: BLE001
        done[prop] = (len(sl), "error", repr(e)[:100])
    print(prop, done[prop], flush=True)
cov.stop()
out = []
tot_s = tot_m = 0
for fn in sorted(cov.get_data().measured_files()):
    _, stmts, _, missing, fmt = cov.analysis2(fn)
    tot_s += len(stmts)
    tot_m += len(missing)
    out.append(f"{os.path.relpath(fn, '/repo'):45s} {len(stmts):5d} stmts  {100 * (len(stmts) - len(missing)) / max(1, len(stmts)):5.1f}%  "
               f"missing: {fmt}")
hdr = [f"statement coverage of /repo/processscheduler by the correspondence channels (tools/covmap.py {n}; items per property: "
       f"{ {k: v[0] for k, v in done.items()} })",
       f"TOTAL {tot_s} statements, {100 * (tot_s - tot_m) / tot_s:.1f}% executed", ""]
open(os.path.join(VERIF, "notes", "coverage.txt"), "w").write("\n".join(hdr + out) + "\n")
print("\n".join(hdr + out))
